module verifsim

go 1.23.0

// crypto: ignore caller-supplied random readers (and the MaybeReadByte coin flip that comes
// with them) so that testing/cryptotest.SetGlobalRandom makes all key generation, signing and
// TLS handshakes a pure function of the run seed.
godebug cryptocustomrand=0

require (
	github.com/anishathalye/porcupine v1.3.0
	github.com/golang/snappy v0.0.3
	github.com/google/martian/v3 v3.0.0
	golang.org/x/net v0.0.0-20190628185345-da137c7871d7
)

require golang.org/x/text v0.3.0 // indirect

replace github.com/google/martian/v3 => /repo
