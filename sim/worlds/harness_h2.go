package worlds

import (
	"bytes"
	"fmt"
	"io"
	"sort"
	"strings"

	"verifsim/kernel"
	"verifsim/simnet"

	"golang.org/x/net/http2"
	"golang.org/x/net/http2/hpack"
)

const h2Preface = "PRI * HTTP/2.0\r\n\r\nSM\r\n\r\n"

// H2Ev is one normalised HTTP/2 event as sent or received by a harness endpoint.
type H2Ev struct {
	Kind     string // headers | data | rst | priority | push | settings | settings_ack | ping | goaway | window_update
	Stream   uint32
	Fields   []hpack.HeaderField
	End      bool
	HasPrio  bool
	Prio     http2.PriorityParam
	Data     []byte
	Code     uint32
	Promise  uint32
	Settings []http2.Setting
	Ping     [8]byte
	Ack      bool
	Last     uint32
	Debug    []byte
	Incr     uint32
	FlowLen  int // flow-controlled length of a DATA frame (payload + padding + pad length octet)
	FrameLen int // payload length of the largest frame that made up this event
	Frames   int // number of wire frames (HEADERS+CONTINUATIONs)
	Padded   bool
	Step     int
}

func (e H2Ev) String() string {
	switch e.Kind {
	case "headers":
		return fmt.Sprintf("HEADERS(s%d end=%v prio=%v %d fields in %d frames)", e.Stream, e.End, e.HasPrio, len(e.Fields), e.Frames)
	case "data":
		return fmt.Sprintf("DATA(s%d %dB end=%v padded=%v)", e.Stream, len(e.Data), e.End, e.Padded)
	case "rst":
		return fmt.Sprintf("RST(s%d code=%d)", e.Stream, e.Code)
	case "priority":
		return fmt.Sprintf("PRIORITY(s%d %+v)", e.Stream, e.Prio)
	case "push":
		return fmt.Sprintf("PUSH_PROMISE(s%d promise=%d %d fields)", e.Stream, e.Promise, len(e.Fields))
	case "settings":
		return fmt.Sprintf("SETTINGS(%v)", e.Settings)
	case "settings_ack":
		return "SETTINGS_ACK"
	case "ping":
		return fmt.Sprintf("PING(ack=%v %x)", e.Ack, e.Ping)
	case "goaway":
		return fmt.Sprintf("GOAWAY(last=%d code=%d debug=%q)", e.Last, e.Code, e.Debug)
	case "window_update":
		return fmt.Sprintf("WINDOW_UPDATE(s%d +%d)", e.Stream, e.Incr)
	}
	return e.Kind
}

// H2Op is one scripted operation of an endpoint.
type H2Op struct {
	Kind     string // headers | data | rst | priority | push | settings | ping | goaway
	Stream   uint32
	Fields   []hpack.HeaderField
	End      bool
	HasPrio  bool
	Prio     http2.PriorityParam
	Cuts     []int // header block cut points (fractions in per-mille of the block length)
	Data     []byte
	Pad      int // -1: unpadded; >=0: padded with that many bytes
	Code     uint32
	Promise  uint32
	Settings []http2.Setting
	Ping     [8]byte
	Last     uint32
	Debug    []byte
	NeedOpen bool // server op: requires the stream to have been opened by the client
}

// H2End is a controller-driven HTTP/2 endpoint (client or server role).
type H2End struct {
	k      *kernel.K
	Name   string
	Client bool
	C      *simnet.Conn

	wbuf bytes.Buffer
	wfr  *http2.Framer
	encb bytes.Buffer
	enc  *hpack.Encoder

	rbuf       []byte
	rframe     bytes.Buffer
	rfr        *http2.Framer
	dec        *hpack.Decoder
	gotPreface bool
	hdrBuf     []byte
	hdrEv      *H2Ev
	RdErr      error
	EOF        bool
	RST        bool
	EOFStep    int

	Script []*H2Op
	next   int

	Sent []H2Ev
	Recv []H2Ev

	// sender-side flow control (what this end may still send)
	sendConn    int
	sendStream  map[uint32]int
	peerInitWin int
	// credit received from the relay
	CreditConn   int
	CreditStream map[uint32]int
	SentFlow     map[uint32]int // flow-controlled bytes sent per stream
	SentFlowConn int

	// receiver side: what this end advertised and granted
	advInit         []int // initial-window values advertised and possibly in force (un-acked ones included)
	advFrame        []int // max-frame-size values possibly in force
	unackedSettings [][]http2.Setting
	GrantStream     map[uint32]int
	GrantConn       int
	RecvFlow        map[uint32]int
	RecvFlowConn    int
	pendStream      map[uint32]int // received, not yet granted back
	pendConn        int
	NoAutoGrant     bool
	sawFirstFrame   bool
	// FirstFrameNotSettings names the type of the first frame received when it was not SETTINGS.
	FirstFrameNotSettings string
	NeverGrant            bool // with NoAutoGrant: no grant actions are offered either (credit only through GrantExtra)

	opened     map[uint32]bool // streams opened by the client as seen by this end
	rstSeen    map[uint32]bool
	closedSelf bool
	// Violations of the receiver ledger are reported through these callbacks.
	OnWindow     func(what string, stream uint32, got, allowed int)
	OnFrameSize  func(ev H2Ev, max int)
	Held         bool
	splits       int
	tinyGrants   int
	peerMaxFrame int // largest frame payload this end may send: the SETTINGS_MAX_FRAME_SIZE it last received (default 16384)
	// HPACK table-size discipline: after this end lowered SETTINGS_HEADER_TABLE_SIZE and the
	// change was acknowledged, the next header block must start with a dynamic table size update
	// that respects it (RFC 7541 4.2), unless one has been seen since the SETTINGS were sent.
	tableLimit      int
	sawTableUpdate  bool
	curTable        int // dynamic table size the peer's encoder last announced in-band (4096 at the start)
	mustUpdateNext  bool
	pendingTable    []int  // per un-acked SETTINGS frame: advertised table size or -1
	pendingComplied []bool // ... and whether the peer's encoder has announced a size that fits it
}

func newH2End(k *kernel.K, name string, client bool, c *simnet.Conn) *H2End {
	e := &H2End{k: k, Name: name, Client: client, C: c,
		sendConn: 65535, peerInitWin: 65535, sendStream: map[uint32]int{},
		CreditStream: map[uint32]int{}, SentFlow: map[uint32]int{},
		advInit: []int{65535}, advFrame: []int{16384}, tableLimit: 4096, curTable: 4096,
		GrantStream: map[uint32]int{}, RecvFlow: map[uint32]int{}, pendStream: map[uint32]int{},
		opened: map[uint32]bool{}, rstSeen: map[uint32]bool{}}
	e.wfr = http2.NewFramer(&e.wbuf, nil)
	e.wfr.AllowIllegalWrites = true
	e.enc = hpack.NewEncoder(&e.encb)
	e.rfr = http2.NewFramer(nil, &e.rframe)
	// x/net's order check does not accept CONTINUATION after PUSH_PROMISE (legal per RFC 7540
	// 6.6/6.10); this endpoint checks the order of header block fragments itself (onFrame).
	e.rfr.AllowIllegalReads = true
	e.rfr.SetMaxReadFrameSize(1<<24 - 1)
	e.dec = hpack.NewDecoder(4096, nil)
	e.gotPreface = client // a client end expects no preface from its peer
	c.OnData(e.feed, func() { e.EOF = true; e.EOFStep = k.StepN }, func() { e.RST = true; e.EOFStep = k.StepN })
	k.AddSource(e.actions)
	return e
}

func (e *H2End) flush() {
	if e.wbuf.Len() > 0 {
		e.C.Inject(append([]byte(nil), e.wbuf.Bytes()...))
		e.wbuf.Reset()
	}
}

// SendPreface writes the client connection preface.
func (e *H2End) SendPreface() { e.C.Inject([]byte(h2Preface)) }

func (e *H2End) streamWin(id uint32) int {
	w, ok := e.sendStream[id]
	if !ok {
		w = e.peerInitWin
		e.sendStream[id] = w
	}
	return w
}

func (e *H2End) maxSendFrame() int {
	if e.peerMaxFrame == 0 {
		return 16384
	}
	return e.peerMaxFrame
}

// enabled reports whether the head operation of the script can be performed now.
func (e *H2End) enabled() bool {
	if e.Held || e.closedSelf || e.EOF || e.RST || e.next >= len(e.Script) {
		return false
	}
	op := e.Script[e.next]
	if op.NeedOpen && !e.opened[op.Stream] {
		return false
	}
	if op.Kind == "data" {
		fl := len(op.Data)
		if op.Pad >= 0 {
			fl += op.Pad + 1
		}
		if fl > e.sendConn || fl > e.streamWin(op.Stream) {
			// An unpadded frame may be split to fit whatever window there is.
			return op.Pad < 0 && e.sendConn > 0 && e.streamWin(op.Stream) > 0 && e.splits < 40
		}
	}
	return true
}

// OpenAllWindows grants ample extra credit on the connection and on every given stream.
func (e *H2End) OpenAllWindows(streams []uint32) {
	if e.closedSelf || e.EOF || e.RST {
		return
	}
	e.GrantExtra(0, 1<<24)
	for _, id := range streams {
		e.GrantExtra(id, 1<<24)
	}
}

func (e *H2End) actions(add func(kernel.Action)) {
	if e.enabled() {
		op := e.Script[e.next]
		add(kernel.Action{Key: fmt.Sprintf("%s op#%d %s s%d", e.Name, e.next, op.Kind, op.Stream), W: 3, Class: kernel.Actor, Do: e.doNext})
	}
	if !e.NoAutoGrant || e.NeverGrant || e.closedSelf || e.EOF || e.RST {
		return
	}
	if e.pendConn > 0 {
		add(kernel.Action{Key: e.Name + " grant conn", W: 2, Class: kernel.Actor, Do: func() { e.grant(0, e.grantSize(e.pendConn)) }})
	}
	ids := make([]uint32, 0, len(e.pendStream))
	for id, p := range e.pendStream {
		if p > 0 {
			ids = append(ids, id)
		}
	}
	sort.Slice(ids, func(i, j int) bool { return ids[i] < ids[j] })
	for _, id := range ids {
		id := id
		add(kernel.Action{Key: fmt.Sprintf("%s grant s%d", e.Name, id), W: 2, Class: kernel.Actor, Do: func() {
			n := e.grantSize(e.pendStream[id])
			e.grant(id, n)
			if n < 200 {
				// A relay that uses every byte of credit answers tiny grants with tiny frames; after
				// a while this receiver opens the stream wide so that a run stays bounded.
				if e.tinyGrants++; e.tinyGrants%40 == 0 {
					e.GrantExtra(id, 1<<20)
					e.GrantExtra(0, 1<<20)
				}
			}
		}})
	}
}

func (e *H2End) grantSize(pending int) int {
	if e.k.Draining {
		return pending
	}
	switch e.k.S.Pick([]int{4, 2, 2}) {
	case 1:
		return 1
	case 2:
		return (pending + 1) / 2
	}
	return pending
}

// grant sends a WINDOW_UPDATE returning n bytes of credit for stream id (0 = connection).
func (e *H2End) grant(id uint32, n int) {
	if n <= 0 {
		return
	}
	if id == 0 {
		e.pendConn -= n
		e.GrantConn += n
	} else {
		e.pendStream[id] -= n
		e.GrantStream[id] += n
	}
	e.wfr.WriteWindowUpdate(id, uint32(n))
	e.flush()
	e.Sent = append(e.Sent, H2Ev{Kind: "window_update", Stream: id, Incr: uint32(n), Step: e.k.StepN})
}

// GrantExtra grants credit beyond what was consumed (opens a window that started at zero).
func (e *H2End) GrantExtra(id uint32, n int) {
	if id == 0 {
		e.GrantConn += n
	} else {
		e.GrantStream[id] += n
	}
	e.wfr.WriteWindowUpdate(id, uint32(n))
	e.flush()
	e.Sent = append(e.Sent, H2Ev{Kind: "window_update", Stream: id, Incr: uint32(n), Step: e.k.StepN})
}

func (e *H2End) encode(fields []hpack.HeaderField) []byte {
	e.encb.Reset()
	for _, f := range fields {
		e.enc.WriteField(f)
	}
	return append([]byte(nil), e.encb.Bytes()...)
}

func (e *H2End) doNext() {
	op := e.Script[e.next]
	if op.Kind == "data" && op.Pad < 0 {
		avail := e.sendConn
		if w := e.streamWin(op.Stream); w < avail {
			avail = w
		}
		if mf := e.maxSendFrame(); mf < avail && len(op.Data) > mf {
			avail = mf // a well-behaved sender never exceeds the peer's maximum frame size
		}
		if len(op.Data) > avail && avail > 0 {
			// send the part that fits; the rest stays at the head of the script
			part := &H2Op{Kind: "data", Stream: op.Stream, Data: op.Data[:avail], Pad: -1}
			op.Data = op.Data[avail:]
			e.splits++
			e.k.Probe("sender_split_to_fit_window")
			e.Do(part)
			return
		}
	}
	e.next++
	e.Do(op)
}

// Do performs one operation now.
func (e *H2End) Do(op *H2Op) {
	ev := H2Ev{Kind: op.Kind, Stream: op.Stream, Step: e.k.StepN}
	switch op.Kind {
	case "headers", "push":
		block := e.encode(op.Fields)
		var cuts []int
		for _, c := range op.Cuts {
			p := c * len(block) / 1000
			if p > 0 && p < len(block) && (len(cuts) == 0 || p > cuts[len(cuts)-1]) {
				cuts = append(cuts, p)
			}
		}
		cuts = append(cuts, len(block))
		first := block[:cuts[0]]
		if op.Kind == "headers" {
			e.wfr.WriteHeaders(http2.HeadersFrameParam{StreamID: op.Stream, BlockFragment: first, EndStream: op.End, EndHeaders: len(cuts) == 1, Priority: prioIf(op.HasPrio, op.Prio)})
			if e.Client {
				e.opened[op.Stream] = true
			}
		} else {
			e.wfr.WritePushPromise(http2.PushPromiseParam{StreamID: op.Stream, PromiseID: op.Promise, BlockFragment: first, EndHeaders: len(cuts) == 1})
			ev.Promise = op.Promise
		}
		for i := 1; i < len(cuts); i++ {
			e.wfr.WriteContinuation(op.Stream, i == len(cuts)-1, block[cuts[i-1]:cuts[i]])
		}
		ev.Fields, ev.End, ev.HasPrio, ev.Prio, ev.Frames = op.Fields, op.End, op.HasPrio, op.Prio, len(cuts)
	case "data":
		fl := len(op.Data)
		if op.Pad >= 0 {
			e.wfr.WriteDataPadded(op.Stream, op.End, op.Data, make([]byte, op.Pad))
			fl += op.Pad + 1
			ev.Padded = true
		} else {
			e.wfr.WriteData(op.Stream, op.End, op.Data)
		}
		e.sendConn -= fl
		e.sendStream[op.Stream] = e.streamWin(op.Stream) - fl
		e.SentFlow[op.Stream] += fl
		e.SentFlowConn += fl
		ev.Data, ev.End, ev.FlowLen = op.Data, op.End, fl
	case "rst":
		e.wfr.WriteRSTStream(op.Stream, http2.ErrCode(op.Code))
		ev.Code = op.Code
	case "priority":
		e.wfr.WritePriority(op.Stream, op.Prio)
		ev.Prio, ev.HasPrio = op.Prio, true
	case "settings":
		e.wfr.WriteSettings(op.Settings...)
		ev.Settings = op.Settings
		e.unackedSettings = append(e.unackedSettings, op.Settings)
		tbl := -1
		for _, s := range op.Settings {
			if s.ID == http2.SettingHeaderTableSize {
				tbl = int(s.Val)
			}
		}
		if tbl >= 0 && tbl < e.tableLimit {
			e.sawTableUpdate = false
		}
		e.pendingTable = append(e.pendingTable, tbl)
		e.pendingComplied = append(e.pendingComplied, false)
		// (the values of one frame are processed in order with no frame processing between them:
		// of several values for one identifier only the last is ever in force)
		last := map[http2.SettingID]int{}
		for i, s := range op.Settings {
			last[s.ID] = i
		}
		for i, s := range op.Settings {
			if last[s.ID] != i {
				continue
			}
			switch s.ID {
			case http2.SettingInitialWindowSize:
				e.advInit = append(e.advInit, int(s.Val))
			case http2.SettingMaxFrameSize:
				e.advFrame = append(e.advFrame, int(s.Val))
			case http2.SettingHeaderTableSize:
				// (a lowered limit binds the peer's encoder only once this frame is acknowledged:
				// until then a size the peer chose under an earlier, larger limit is legal)
				e.syncAllowedTable()
			}
		}
	case "wupdate":
		// credit granted ahead of consumption (a receiver may raise its windows at any time)
		e.GrantExtra(op.Stream, int(op.Code))
		return
	case "extension":
		e.wfr.WriteRawFrame(http2.FrameType(0x10), 0, 0, []byte{0, 0, 0, 1, 'u', '=', '3'})
		e.flush()
		return // nothing the peer has to see
	case "ping":
		e.wfr.WritePing(false, op.Ping)
		ev.Ping = op.Ping
	case "goaway":
		e.wfr.WriteGoAway(op.Last, http2.ErrCode(op.Code), op.Debug)
		ev.Last, ev.Code, ev.Debug = op.Last, op.Code, op.Debug
	}
	e.flush()
	e.Sent = append(e.Sent, ev)
}

func prioIf(has bool, p http2.PriorityParam) http2.PriorityParam {
	if has {
		return p
	}
	return http2.PriorityParam{}
}

// Close closes this end's connection.
func (e *H2End) Close() {
	if !e.closedSelf {
		e.closedSelf = true
		e.C.Close()
	}
}

func maxOf(xs []int) int {
	m := xs[0]
	for _, x := range xs {
		if x > m {
			m = x
		}
	}
	return m
}

// feed consumes bytes delivered to this end.
func (e *H2End) feed(b []byte) {
	if e.RdErr != nil {
		return
	}
	e.rbuf = append(e.rbuf, b...)
	if !e.gotPreface {
		if len(e.rbuf) < len(h2Preface) {
			if !strings.HasPrefix(h2Preface, string(e.rbuf)) {
				e.RdErr = fmt.Errorf("bad connection preface %q", e.rbuf)
			}
			return
		}
		if string(e.rbuf[:len(h2Preface)]) != h2Preface {
			e.RdErr = fmt.Errorf("bad connection preface %q", e.rbuf[:len(h2Preface)])
			return
		}
		e.rbuf = e.rbuf[len(h2Preface):]
		e.gotPreface = true
	}
	for len(e.rbuf) >= 9 {
		ln := int(e.rbuf[0])<<16 | int(e.rbuf[1])<<8 | int(e.rbuf[2])
		if len(e.rbuf) < 9+ln {
			return
		}
		e.rframe.Reset()
		e.rframe.Write(e.rbuf[:9+ln])
		e.rbuf = e.rbuf[9+ln:]
		f, err := e.rfr.ReadFrame()
		if err != nil {
			e.RdErr = fmt.Errorf("frame from the relay is not valid here: %v", err)
			return
		}
		e.onFrame(f, ln)
		if e.RdErr != nil {
			return
		}
	}
}

func (e *H2End) frameSizeCheck(ev H2Ev, ln int) {
	if m := maxOf(e.advFrame); ln > m && e.OnFrameSize != nil {
		ev.FrameLen = ln
		e.OnFrameSize(ev, m)
	}
}

// syncAllowedTable sets the largest dynamic table size this end's decoder accepts in a size
// update: the largest of the value in force and the values advertised but not acknowledged yet.
func (e *H2End) syncAllowedTable() {
	limit := e.tableLimit
	for _, t := range e.pendingTable {
		if t > limit {
			limit = t
		}
	}
	e.dec.SetAllowedMaxDynamicTableSize(uint32(limit))
}

func (e *H2End) finishHeaders(end bool) {
	ev := e.hdrEv
	e.hdrEv = nil
	if upd, ok := leadingTableSizeUpdate(e.hdrBuf); ok {
		limit := e.tableLimit
		for _, t := range e.pendingTable {
			if t > limit {
				limit = t
			}
		}
		if upd > limit {
			e.RdErr = fmt.Errorf("header block on stream %d sets the dynamic table size to %d, above this end's SETTINGS_HEADER_TABLE_SIZE %d", ev.Stream, upd, limit)
			return
		}
		e.sawTableUpdate = true
		e.curTable = upd
		e.mustUpdateNext = false
		// an announced size that fits a lowered limit not yet acknowledged: the encoder has
		// complied with that SETTINGS frame already (it announces the smallest size in between
		// before the final one)
		if _, lo, _ := leadingTableSizeUpdates(e.hdrBuf); true {
			for i, t := range e.pendingTable {
				if t >= 0 && lo <= t {
					e.pendingComplied[i] = true
				}
			}
		}
	} else if e.mustUpdateNext {
		e.RdErr = fmt.Errorf("header block on stream %d does not start with a dynamic table size update although this end lowered SETTINGS_HEADER_TABLE_SIZE to %d and the change was acknowledged: the encoder ignores the advertised table size (block starts %x; advertised and not yet acknowledged: %v)", ev.Stream, e.tableLimit, clipBytes(e.hdrBuf, 12), e.pendingTable)
		return
	}
	// The hpack decoder of the x/net version pinned by the repository rejects a second dynamic
	// table size update at the start of one block, although RFC 7541 section 4.2 provides for two
	// (the smallest size in between, then the final one): the leading updates are fed one by one.
	block := e.hdrBuf
	for len(block) > 0 && block[0]&0xe0 == 0x20 {
		n := 1
		if block[0]&0x1f == 0x1f {
			for n < len(block) && block[n]&0x80 != 0 {
				n++
			}
			n++
		}
		if n >= len(block) {
			break
		}
		if _, err := e.dec.Write(block[:n]); err == nil {
			e.dec.Close()
		}
		block = block[n:]
	}
	fields, err := e.dec.DecodeFull(block)
	if err != nil {
		e.RdErr = fmt.Errorf("header block on stream %d does not decode under this end's HPACK state: %v (block %x)", ev.Stream, err, clipBytes(e.hdrBuf, 48))
		return
	}
	ev.Fields = fields
	e.Recv = append(e.Recv, *ev)
	if ev.Kind == "headers" && !e.Client {
		e.opened[ev.Stream] = true
	}
}

func (e *H2End) onFrame(f http2.Frame, ln int) {
	step := e.k.StepN
	if !e.sawFirstFrame {
		// RFC 7540 section 3.5: the peer's connection preface starts with a SETTINGS frame, which
		// MUST be the first frame it sends. (A client may send frames right after its own preface,
		// so a relay can have something of its own to say before the server has spoken.)
		e.sawFirstFrame = true
		if sf, ok := f.(*http2.SettingsFrame); !ok || sf.IsAck() {
			e.FirstFrameNotSettings = fmt.Sprintf("%v", f.Header().Type)
		}
	}
	if cf, ok := f.(*http2.ContinuationFrame); ok {
		if e.hdrEv != nil && cf.StreamID != e.hdrEv.Stream {
			e.RdErr = fmt.Errorf("CONTINUATION on stream %d while the header block of stream %d is in progress", cf.StreamID, e.hdrEv.Stream)
			return
		}
	} else if e.hdrEv != nil {
		e.RdErr = fmt.Errorf("%v frame on stream %d in the middle of the header block of stream %d", f.Header().Type, f.Header().StreamID, e.hdrEv.Stream)
		return
	}
	switch f := f.(type) {
	case *http2.HeadersFrame:
		e.hdrEv = &H2Ev{Kind: "headers", Stream: f.StreamID, End: f.StreamEnded(), HasPrio: f.HasPriority(), Prio: f.Priority, Frames: 1, Step: step, FrameLen: ln}
		e.hdrBuf = append(e.hdrBuf[:0], f.HeaderBlockFragment()...)
		e.frameSizeCheck(*e.hdrEv, ln)
		if f.HeadersEnded() {
			e.finishHeaders(true)
		}
	case *http2.PushPromiseFrame:
		e.hdrEv = &H2Ev{Kind: "push", Stream: f.StreamID, Promise: f.PromiseID, Frames: 1, Step: step, FrameLen: ln}
		e.hdrBuf = append(e.hdrBuf[:0], f.HeaderBlockFragment()...)
		e.frameSizeCheck(*e.hdrEv, ln)
		if f.HeadersEnded() {
			e.finishHeaders(true)
		}
	case *http2.ContinuationFrame:
		if e.hdrEv == nil {
			e.RdErr = fmt.Errorf("CONTINUATION on stream %d without a header block in progress", f.StreamID)
			return
		}
		e.hdrBuf = append(e.hdrBuf, f.HeaderBlockFragment()...)
		e.hdrEv.Frames++
		e.frameSizeCheck(*e.hdrEv, ln)
		if f.HeadersEnded() {
			e.finishHeaders(true)
		}
	case *http2.DataFrame:
		ev := H2Ev{Kind: "data", Stream: f.StreamID, Data: append([]byte(nil), f.Data()...), End: f.StreamEnded(), FlowLen: ln, Step: step, FrameLen: ln, Padded: f.Flags.Has(http2.FlagDataPadded)}
		e.Recv = append(e.Recv, ev)
		e.frameSizeCheck(ev, ln)
		e.RecvFlow[f.StreamID] += ln
		e.RecvFlowConn += ln
		e.pendStream[f.StreamID] += ln
		e.pendConn += ln
		if e.OnWindow != nil && ln > 0 { // (an empty DATA frame consumes no window and may be sent at any time)
			if allowed := maxOf(e.advInit) + e.GrantStream[f.StreamID]; e.RecvFlow[f.StreamID] > allowed {
				e.OnWindow("stream", f.StreamID, e.RecvFlow[f.StreamID], allowed)
			}
			if allowed := 65535 + e.GrantConn; e.RecvFlowConn > allowed {
				e.OnWindow("conn", 0, e.RecvFlowConn, allowed)
			}
		}
		if !e.NoAutoGrant && ln > 0 {
			e.grant(0, ln)
			if !f.StreamEnded() {
				e.grant(f.StreamID, ln)
			} else {
				e.pendStream[f.StreamID] = 0
			}
		}
	case *http2.RSTStreamFrame:
		e.Recv = append(e.Recv, H2Ev{Kind: "rst", Stream: f.StreamID, Code: uint32(f.ErrCode), Step: step})
		e.rstSeen[f.StreamID] = true
	case *http2.PriorityFrame:
		e.Recv = append(e.Recv, H2Ev{Kind: "priority", Stream: f.StreamID, Prio: f.PriorityParam, HasPrio: true, Step: step})
	case *http2.SettingsFrame:
		if f.IsAck() {
			e.Recv = append(e.Recv, H2Ev{Kind: "settings_ack", Step: step})
			// The oldest un-acknowledged SETTINGS of this end are now in force on the peer:
			// older advertised values can no longer be relied upon by it.
			if len(e.unackedSettings) > 0 {
				acked := e.unackedSettings[0]
				e.unackedSettings = e.unackedSettings[1:]
				if tbl := e.pendingTable[0]; tbl >= 0 {
					// (the encoder has complied already when the size it last announced fits)
					if tbl < e.tableLimit && e.curTable > tbl && !e.pendingComplied[0] {
						e.mustUpdateNext = true
					}
					e.tableLimit = tbl
				}
				e.pendingTable = e.pendingTable[1:]
				e.pendingComplied = e.pendingComplied[1:]
				e.syncAllowedTable()
				last := map[http2.SettingID]int{}
				for i, s := range acked {
					last[s.ID] = i
				}
				for i, s := range acked {
					if last[s.ID] != i {
						continue // only the last value of an identifier was ever advertised
					}
					switch s.ID {
					case http2.SettingInitialWindowSize:
						e.advInit = pruneUpTo(e.advInit, int(s.Val))
					case http2.SettingMaxFrameSize:
						e.advFrame = pruneUpTo(e.advFrame, int(s.Val))
					}
				}
			}
			return
		}
		var ss []http2.Setting
		f.ForeachSetting(func(s http2.Setting) error {
			ss = append(ss, s)
			switch s.ID {
			case http2.SettingMaxFrameSize:
				e.peerMaxFrame = int(s.Val)
			case http2.SettingInitialWindowSize:
				d := int(s.Val) - e.peerInitWin
				e.peerInitWin = int(s.Val)
				for id := range e.sendStream {
					e.sendStream[id] += d
				}
			case http2.SettingHeaderTableSize:
				e.enc.SetMaxDynamicTableSizeLimit(s.Val)
				e.enc.SetMaxDynamicTableSize(s.Val)
			}
			return nil
		})
		e.Recv = append(e.Recv, H2Ev{Kind: "settings", Settings: ss, Step: step})
		// a well-behaved peer acknowledges at once - but its own SETTINGS frame is the first frame
		// it sends (RFC 7540 section 3.5), so that goes out first if it has not yet
		if e.next == 0 && len(e.Script) > 0 && e.Script[0].Kind == "settings" && !e.closedSelf {
			e.doNext()
		}
		e.wfr.WriteSettingsAck()
		e.flush()
	case *http2.PingFrame:
		e.Recv = append(e.Recv, H2Ev{Kind: "ping", Ping: f.Data, Ack: f.IsAck(), Step: step})
		if !f.IsAck() {
			e.wfr.WritePing(true, f.Data)
			e.flush()
			e.Sent = append(e.Sent, H2Ev{Kind: "ping", Ping: f.Data, Ack: true, Step: step})
		}
	case *http2.GoAwayFrame:
		e.Recv = append(e.Recv, H2Ev{Kind: "goaway", Last: f.LastStreamID, Code: uint32(f.ErrCode), Debug: append([]byte(nil), f.DebugData()...), Step: step})
	case *http2.WindowUpdateFrame:
		e.Recv = append(e.Recv, H2Ev{Kind: "window_update", Stream: f.StreamID, Incr: f.Increment, Step: step})
		if f.StreamID == 0 {
			e.sendConn += int(f.Increment)
			e.CreditConn += int(f.Increment)
		} else {
			e.sendStream[f.StreamID] = e.streamWin(f.StreamID) + int(f.Increment)
			e.CreditStream[f.StreamID] += int(f.Increment)
		}
	}
}

// leadingTableSizeUpdate reports the (last) dynamic table size update a header block starts with.
// leadingTableSizeUpdates returns the last and the smallest of the dynamic table size updates a
// header block starts with.
func leadingTableSizeUpdates(b []byte) (last, min int, found bool) {
	min = 1 << 31
	for len(b) > 0 && b[0]&0xe0 == 0x20 {
		v := int(b[0] & 0x1f)
		b = b[1:]
		if v == 0x1f {
			shift := 0
			for len(b) > 0 {
				c := b[0]
				b = b[1:]
				v += int(c&0x7f) << shift
				shift += 7
				if c&0x80 == 0 {
					break
				}
			}
		}
		found, last = true, v
		if v < min {
			min = v
		}
	}
	return last, min, found
}

func leadingTableSizeUpdate(b []byte) (int, bool) {
	found, val := false, 0
	for len(b) > 0 && b[0]&0xe0 == 0x20 {
		v := int(b[0] & 0x1f)
		b = b[1:]
		if v == 0x1f {
			shift := 0
			for len(b) > 0 {
				c := b[0]
				b = b[1:]
				v += int(c&0x7f) << shift
				shift += 7
				if c&0x80 == 0 {
					break
				}
			}
		}
		found, val = true, v
	}
	return val, found
}

// pruneUpTo drops advertised values older than the acknowledged one.
func pruneUpTo(vals []int, acked int) []int {
	for i, v := range vals {
		if v == acked {
			return vals[i:]
		}
	}
	return vals
}

// streamEvents filters events of the given kinds for one stream, coalescing consecutive DATA.
func streamEvents(evs []H2Ev, stream uint32) []H2Ev {
	var out []H2Ev
	for _, e := range evs {
		if e.Stream != stream {
			continue
		}
		switch e.Kind {
		case "headers", "rst", "priority", "push":
			out = append(out, e)
		case "data":
			if n := len(out); n > 0 && out[n-1].Kind == "data" && !out[n-1].End {
				out[n-1].Data = append(append([]byte(nil), out[n-1].Data...), e.Data...)
				out[n-1].End = e.End
			} else {
				cp := e
				cp.Data = append([]byte(nil), e.Data...)
				out = append(out, cp)
			}
		}
	}
	// An empty DATA without END_STREAM carries nothing.
	var res []H2Ev
	for _, e := range out {
		if e.Kind == "data" && len(e.Data) == 0 && !e.End {
			continue
		}
		res = append(res, e)
	}
	return res
}

func connEvents(evs []H2Ev) []H2Ev {
	var out []H2Ev
	for _, e := range evs {
		switch e.Kind {
		case "settings", "ping", "goaway":
			if e.Kind == "ping" && e.Ack {
				continue
			}
			out = append(out, e)
		}
	}
	return out
}

func streamsOf(evs []H2Ev) []uint32 {
	seen := map[uint32]bool{}
	var ids []uint32
	for _, e := range evs {
		switch e.Kind {
		case "headers", "data", "rst", "priority", "push":
			if !seen[e.Stream] {
				seen[e.Stream] = true
				ids = append(ids, e.Stream)
			}
		}
	}
	sort.Slice(ids, func(i, j int) bool { return ids[i] < ids[j] })
	return ids
}

func sameFields(a, b []hpack.HeaderField) bool {
	if len(a) != len(b) {
		return false
	}
	for i := range a {
		if a[i].Name != b[i].Name || a[i].Value != b[i].Value {
			return false
		}
	}
	return true
}

func fieldsString(fs []hpack.HeaderField) string {
	var sb strings.Builder
	for i, f := range fs {
		if i > 0 {
			sb.WriteString(", ")
		}
		v := f.Value
		if len(v) > 24 {
			v = v[:24] + "..."
		}
		sb.WriteString(f.Name + "=" + v)
		if i >= 7 {
			sb.WriteString(", ...")
			break
		}
	}
	return sb.String()
}

var _ = io.EOF

func clipBytes(b []byte, n int) []byte {
	if len(b) > n {
		return b[:n]
	}
	return b
}
