// Package worlds contains the simulated worlds (system under test + scripted endpoints +
// oracles), one per property family.
package worlds

import (
	"verifsim/kernel"
)

// World is one simulated scenario family deciding one property.
type World struct {
	Name     string
	Prop     string
	Run      func(k *kernel.K)
	MaxSteps int
	// WarmCrypto: the world uses TLS; run the crypto warm-up once per worker process.
	WarmCrypto bool
	// Real / Stub document which components ran real code and which were stubbed.
	Real []string
	Stub []string
}

// Worlds is the registry, keyed by world name.
var Worlds = map[string]*World{}

func register(w *World) { Worlds[w.Name] = w }

var commonStub = []string{
	"sockets/listeners/dialer (simnet)", "clock (synctest bubble)", "crypto/rand (cryptotest.SetGlobalRandom)",
	"goroutine scheduling decisions (controller + choice tape)",
}
