package worlds

import (
	"fmt"
	"net/http"
	"runtime"
	"strings"
	"sync"
	"time"

	"verifsim/kernel"
	"verifsim/simnet"
	"verifsim/wire"

	"github.com/google/martian/v3"
)

// C07 — shutdown completes in-flight exchanges, refuses new ones and closes everything.

func init() {
	register(&World{
		Name: "C07", Prop: "C07", Run: runC07, MaxSteps: 20000,
		Real: []string{"martian.Proxy (Serve, handleLoop, readRequest, handle, Close, Closing)", "net/http.Transport"},
		Stub: append([]string{"raw scripted clients and origins", "harness modifiers with controller-owned gates", "yield hook at the head of handleLoop (seam R4)"}, commonStub...),
	})
}

var c07Points = []string{"idle", "partial_head", "in_reqmod", "origin_holds", "in_resmod", "write_blocked", "at_handler_entry", "connect_in_reqmod", "busy_tunnel"}

type c07Conn struct {
	idx       int
	point     string
	client    *Client
	id        int // exchange id (0 if none)
	spec      *ReqSpec
	resp      *RespSpec
	late      bool
	pipelined bool // more requests were pipelined behind the exchange in flight

	reqEnter, reqRet, resEnter, resRet int
	reqCalls, resCalls                 int
}

func runC07(k *kernel.K) {
	w := k.W
	n := simnet.New(k)
	n.DefaultPolicy = simnet.ChunkPolicy(w.Pick([]int{6, 2, 1, 1}))
	n.TCPLikeConns = w.Chance(1, 2)
	n.ResetOnCloseWithUnread = n.TCPLikeConns && w.Chance(1, 2) // (a reset on close is what TCP does)
	if n.ResetOnCloseWithUnread {
		k.Probe("network_resets_on_close_with_unread_input")
	}
	proxy, l := newProxyA(k, n)
	k.AddSource(k.GateSource)

	nconn := w.Range(1, 3)
	var conns []*c07Conn
	byID := map[int]*c07Conn{}
	var mu sync.Mutex

	// Yield hook: park the handler goroutine of designated connections before it does anything.
	yieldPark := map[int]bool{} // accept order index -> park
	accepted := 0
	ly := k.LockYield()
	// regStep[i]: the step at which Serve registered the i-th connection it obtained from Accept
	// with the proxy's connection set (absent: not registered yet)
	regStep := map[int]int{}
	regSeen := 0
	martian.VerifYieldHook = func(site string) {
		if site == "lock:proxy" {
			// seam R8: Serve (registering an accepted connection) or Close can be parked right
			// before taking the connection-set mutex
			if callerHas("(*Proxy).Serve") {
				mu.Lock()
				i := regSeen
				regSeen++
				mu.Unlock()
				ly(site)
				mu.Lock()
				regStep[i] = k.StepN
				mu.Unlock()
				return
			}
			ly(site)
			return
		}
		if site != "handleLoop" {
			return // yield points of other seams are not this world's subject
		}
		mu.Lock()
		i := accepted
		accepted++
		park := yieldPark[i]
		mu.Unlock()
		if park {
			k.Probe("handler_parked_at_entry")
			k.Park(fmt.Sprintf("handler-entry#%d", i))
		}
	}
	defer func() { martian.VerifYieldHook = nil }()

	holdOrigin := map[int]bool{}
	parkReq := map[int]bool{}
	parkRes := map[int]bool{}
	idOf := func(req *http.Request) int {
		if req.Method == "CONNECT" {
			if strings.HasPrefix(req.URL.Host, "origin-a.test") {
				mu.Lock()
				defer mu.Unlock()
				for id, c := range byID {
					if c.point == "busy_tunnel" && c.client != nil && req.RemoteAddr == c.client.C.LocalAddr().String() {
						return id
					}
				}
				return -1
			}
			var port int
			fmt.Sscanf(req.URL.Host, "void.test:%d", &port)
			return port - 7000
		}
		return exchangeID(req.URL.Path)
	}
	proxy.SetRequestModifier(martian.RequestModifierFunc(func(req *http.Request) error {
		id := idOf(req)
		mu.Lock()
		c := byID[id]
		if c != nil {
			c.reqCalls++
			c.reqEnter = k.StepN
		}
		mu.Unlock()
		if parkReq[id] {
			k.Park(fmt.Sprintf("reqmod#%d", id))
		}
		mu.Lock()
		if c != nil {
			c.reqRet = k.StepN
		}
		mu.Unlock()
		return nil
	}))
	proxy.SetResponseModifier(martian.ResponseModifierFunc(func(res *http.Response) error {
		id := idOf(res.Request)
		mu.Lock()
		c := byID[id]
		if c != nil {
			c.resCalls++
			c.resEnter = k.StepN
		}
		mu.Unlock()
		if parkRes[id] {
			k.Park(fmt.Sprintf("resmod#%d", id))
		}
		mu.Lock()
		if c != nil {
			c.resRet = k.StepN
		}
		mu.Unlock()
		return nil
	}))
	origin := NewOrigin(k, n, "origin-a.test:80", nil)
	origin.Plan = func(oc *OConn, req *wire.Msg) *Reply {
		c := byID[exchangeID(req.Target)]
		if c == nil {
			return &Reply{Raw: []byte("HTTP/1.1 500 Unplanned\r\nContent-Length: 0\r\n\r\n")}
		}
		return &Reply{Raw: c.resp.Encode(req.Method)}
	}
	// Per-exchange hold of the origin's reply.
	origin.HoldReplies = true
	k.AddSource(func(add func(kernel.Action)) {
		for _, oc := range origin.Conns {
			oc := oc
			if oc.Closed || oc.SawRST || oc.Replied >= len(oc.P.Msgs) {
				continue
			}
			id := exchangeID(oc.P.Msgs[oc.Replied].Target)
			if holdOrigin[id] {
				continue
			}
			add(kernel.Action{Key: fmt.Sprintf("origin reply #%d", id), W: 3, Class: kernel.Actor, Do: func() { oc.ReplyNext() }})
		}
	})

	acceptIdx := 0
	for ci := 0; ci < nconn; ci++ {
		c := &c07Conn{idx: ci, point: c07Points[w.Pick([]int{2, 2, 3, 3, 3, 3, 2, 1, 1})], reqEnter: -1, reqRet: -1, resEnter: -1, resRet: -1}
		c.client = NewClient(k, l, fmt.Sprintf("cl%d", ci), fmt.Sprintf("10.1.0.%d", ci+2))
		myAccept := acceptIdx
		acceptIdx++
		c.id = ci + 1
		byID[c.id] = c
		c.spec = &ReqSpec{ID: c.id, Method: []string{"GET", "POST"}[w.Pick([]int{3, 1})], Abs: true, Host: "origin-a.test", Path: fmt.Sprintf("/x%d/w", c.id)}
		if c.spec.Method == "POST" {
			c.spec.Framing = "cl"
			c.spec.Body = bodyBytes(c.id, 'q', w.Range(1, 3000))
		}
		c.resp = &RespSpec{Status: 200, Framing: []string{"cl", "chunked"}[w.Draw(2)], Body: bodyBytes(c.id, 'r', w.Range(0, 3000))}
		switch c.point {
		case "idle":
			c.id = 0
		case "partial_head":
			raw := c.spec.Encode()
			head := strings.Index(string(raw), "\r\n\r\n")
			c.client.AddRaw(raw[:1+w.Draw(head)], true)
		case "in_reqmod":
			parkReq[c.id] = true
			c.client.Add(c.spec)
		case "origin_holds":
			holdOrigin[c.id] = true
			c.client.Add(c.spec)
		case "in_resmod":
			parkRes[c.id] = true
			c.client.Add(c.spec)
		case "write_blocked":
			c.resp.Body = bodyBytes(c.id, 'r', 9000+w.Draw(9000))
			c.client.C.SetCap(256)
			c.client.C.Peer().Stall(true)
			c.client.Add(c.spec)
		case "at_handler_entry":
			yieldPark[myAccept] = true
			c.client.Add(c.spec)
		case "busy_tunnel":
			// a blind CONNECT tunnel that was established before anything else happens and whose
			// client goes on sending a byte every second, whatever the proxy is doing
			c.spec = &ReqSpec{ID: c.id, Method: "CONNECT", Host: "origin-a.test:80", Path: "origin-a.test:80"}
			c.resp = &RespSpec{Status: 200, Framing: "none"}
			c.client.Add(c.spec)
			k.RunUntil(func() bool { return c.client.Done() })
			if fin := c.client.P.Final(); len(fin) != 1 || fin[0].Status != 200 {
				k.Inconclusive = "tunnel_not_established"
			}
			k.Probe("busy_tunnel_established")
		case "connect_in_reqmod":
			// a CONNECT to a target nobody listens on, parked in its request modifier: the exchange
			// is answered with a 502 by the proxy itself
			c.spec = &ReqSpec{ID: c.id, Method: "CONNECT", Host: fmt.Sprintf("void.test:%d", 7000+c.id), Path: fmt.Sprintf("void.test:%d", 7000+c.id)}
			c.resp = &RespSpec{Status: 502, Framing: "cl"}
			parkReq[c.id] = true
			c.client.Add(c.spec)
		}
		if (c.point == "in_reqmod" || c.point == "origin_holds" || c.point == "in_resmod" || c.point == "write_blocked") && w.Chance(1, 3) {
			// the client has pipelined more requests behind the one in flight (RFC 7230 section
			// 6.3.2): they had not started, so they may go unserved - but what becomes of them must
			// not cost the exchange in flight its response
			var more []byte
			for j, m := 0, 1+w.Draw(3); j < m; j++ {
				more = append(more, (&ReqSpec{ID: 70 + j, Method: "GET", Abs: true, Host: "origin-a.test", Path: fmt.Sprintf("/x%d/p", 70+j)}).Encode()...)
			}
			c.client.AddRaw(more, true)
			c.pipelined = true
			k.Probe("pipelined_behind_inflight")
		}
		conns = append(conns, c)
		k.Note("conn %d: park point %s  %s %s -> %s/%dB", ci, c.point, c.spec.Method, c.spec.Target(), c.resp.Framing, len(c.resp.Body))
	}
	k.StateFn = func() string {
		var sb strings.Builder
		sb.WriteString(n.Fingerprint())
		for _, c := range conns {
			sb.WriteString("|" + c.client.State())
		}
		fmt.Fprintf(&sb, "|g%d|%s", len(k.Parked()), origin.State())
		return sb.String()
	}

	// Phase A: drive towards the park points; Close() lands after a drawn number of steps
	// (possibly before anything happened, possibly after everything is parked).
	k.HoldGates = true
	limit := w.Pick([]int{1, 1, 1, 6}) // 0: at once, 1: few steps, 2: some, 3: all parked
	switch limit {
	case 0:
	case 1:
		for i, m := 0, 1+w.Draw(6); i < m && k.Step(); i++ {
		}
	case 2:
		for i, m := 0, 4+w.Draw(30); i < m && k.Step(); i++ {
		}
	default:
		for k.Step() {
		}
	}
	k.Settle()
	// Which exchanges have entered their request modifier when Close is called.
	closeCalled := k.StepN
	var closeReturned = -1
	var closeMu sync.Mutex
	enteredAtClose := map[int]bool{}
	mu.Lock()
	for _, c := range conns {
		if c.reqEnter >= 0 {
			enteredAtClose[c.idx] = true
		}
	}
	mu.Unlock()
	// A connection belongs to the proxy once Serve has registered it. One that Serve obtained from
	// Accept but had not registered when Close was called (Serve parked in between, seam R8) is,
	// for the proxy, a connection accepted after shutdown began; one that Serve never obtained
	// (Serve returned first) stays in the listener's backlog, which is the caller's to close.
	regClass := func(i int) string {
		mu.Lock()
		defer mu.Unlock()
		st, ok := regStep[i]
		switch {
		case i >= l.Accepted:
			return "backlog"
		case regSeen == 0:
			// Serve never passed the registration site (the code under test registers somewhere
			// else): fall back to "accepted means obtained from Accept"
			return "registered"
		case !ok || st > closeCalled:
			return "registered_after_close"
		}
		return "registered"
	}
	k.Do(kernel.Action{Key: "call proxy.Close()", Class: kernel.Call, Do: func() {
		go func() {
			proxy.Close()
			closeMu.Lock()
			closeReturned = k.StepN
			closeMu.Unlock()
		}()
	}})
	// At the step Close returns: every accepted connection closed, no handler goroutine left.
	checkedReturn := false
	k.AddSettleHook(func() bool {
		closeMu.Lock()
		ret := closeReturned
		closeMu.Unlock()
		if ret < 0 || checkedReturn {
			return false
		}
		checkedReturn = true
		var open []string
		for _, c := range n.Conns() {
			if strings.HasPrefix(c.Label(), "srv(") && !c.Closed() {
				idx := -1
				for _, cc := range conns {
					if "srv("+cc.client.Name+")" == c.Label() {
						idx = cc.idx
					}
				}
				if idx >= 0 && regClass(idx) != "registered" {
					continue
				}
				if idx < 0 && c.Label() == "srv(late)" {
					continue
				}
				open = append(open, c.Label())
			}
		}
		handlers := kernel.CensusSummary(k.Census(), "(*Proxy).handleLoop")
		// handlers of connections registered only after Close was called are not Close's to wait for
		nh, lateOK := 0, 0
		for _, c := range handlers {
			nh += c
		}
		for i := 0; i <= len(conns); i++ {
			if regClass(i) == "registered_after_close" {
				lateOK++
			}
		}
		if nh <= lateOK {
			handlers = nil
		}
		if len(open) > 0 || len(handlers) > 0 {
			what := "handler_running"
			if len(open) > 0 {
				what = "connection_open"
			}
			k.Fail("C07.close_waits", map[string]string{"left_over": what}, "Close() returned at step %d while accepted connections %v were still open and handler goroutines remained: %s", ret, open, kernel.FormatSummary(handlers))
		}
		return false
	})
	// Late connection offered after shutdown began.
	var late *c07Conn
	wantLate := w.Chance(1, 3)
	k.AddSource(func(add func(kernel.Action)) {
		if wantLate && late == nil && !k.Draining {
			add(kernel.Action{Key: "late client connects", W: 2, Class: kernel.Actor, Do: func() {
				c := &c07Conn{idx: len(conns), point: "late", late: true, reqEnter: -1, reqRet: -1, resEnter: -1, resRet: -1}
				c.client = NewClient(k, l, "late", "10.1.0.99")
				c.id = 90
				byID[c.id] = c
				c.spec = &ReqSpec{ID: 90, Method: "GET", Abs: true, Host: "origin-a.test", Path: "/x90/late"}
				c.resp = &RespSpec{Status: 200, Framing: "cl", Body: bodyBytes(90, 'r', 10)}
				if c.client.C != nil {
					c.client.Add(c.spec)
					k.Probe("late_connection_accepted_by_listener")
				} else {
					k.Probe("late_connection_refused_by_listener")
				}
				late = c
			}})
		}
	})

	// Phase C: release everything in tape order.
	k.HoldGates = false
	for id := range holdOrigin {
		delete(holdOrigin, id)
	}
	// A client that does not take its response off the wire may stay that way for a while (much less
	// than the proxy's timeout) before it reads on: the response in flight still has to arrive whole.
	slowReader := false
	for _, c := range conns {
		slowReader = slowReader || c.point == "write_blocked"
	}
	if slowReader && w.Chance(1, 2) {
		// (everything else runs first, so that the response is on its way when the pause begins)
		for k.Step() {
		}
		k.Probe("blocked_reader_pauses_before_reading_on")
		k.Advance(time.Duration(3+w.Draw(58)) * time.Second)
	}
	for _, c := range conns {
		if c.point == "write_blocked" {
			c.client.C.Peer().Stall(false)
		}
	}
	for k.Step() {
	}
	k.Drain()
	// A tunnel in use: its client keeps sending, a byte every simulated second, for longer than any
	// idle timeout; shutdown has to end the tunnel all the same.
	for _, c := range conns {
		if c.point != "busy_tunnel" || k.Inconclusive != "" {
			continue
		}
		for t := 0; t < 400; t++ {
			closeMu.Lock()
			r := closeReturned
			closeMu.Unlock()
			if r >= 0 || !c.client.Alive() {
				break
			}
			c.client.C.Inject([]byte("x"))
			k.Drain()
			if !k.Advance(time.Second) {
				break
			}
		}
		k.Drain()
	}
	if k.Inconclusive != "" {
		k.ReleaseAll()
		n.Shutdown()
		k.Settle()
		return
	}

	// ---- oracle ----
	closeMu.Lock()
	ret := closeReturned
	closeMu.Unlock()
	if ret < 0 {
		busy := "false"
		for _, c := range conns {
			if c.point == "busy_tunnel" {
				busy = "true"
			}
		}
		k.Fail("C07.no_deadlock", map[string]string{"busy_tunnel": busy}, "proxy.Close() called at step %d has not returned at final network quiescence (with a tunnel in use: after 400 more seconds of simulated time); martian goroutines: %s", closeCalled, kernel.FormatSummary(kernel.CensusSummary(k.Census(), "martian/v3.")))
	}
	all := append([]*c07Conn(nil), conns...)
	if late != nil {
		all = append(all, late)
	}
	for _, c := range all {
		cl := c.client
		desc := fmt.Sprintf("connection %d (park point %s; Close called at step %d, returned at %d; reqmod entered %d returned %d; resmod entered %d returned %d)", c.idx, c.point, closeCalled, ret, c.reqEnter, c.reqRet, c.resEnter, c.resRet)
		if cl.C == nil {
			continue
		}
		fin := cl.P.Final()
		switch regClass(c.idx) {
		case "backlog":
			k.Probe("left_in_listener_backlog")
			continue
		case "registered_after_close":
			if !c.late {
				k.Probe("registered_after_close_began")
			}
			c.late = true
		}
		if c.late {
			if c.reqCalls > 0 || cl.P.Total > 0 {
				k.Fail("C07.late_accept_unserved", nil, "%s: a connection accepted after shutdown began was served (%d modifier calls, %d bytes written to it)", desc, c.reqCalls, cl.P.Total)
			}
			if !cl.SawEOF && !cl.SawRST {
				k.Fail("C07.late_accept_unserved", nil, "%s: a connection accepted after shutdown began was not closed", desc)
			}
			continue
		}
		if ret >= 0 && c.reqEnter > ret {
			k.Fail("C07.no_reqmod_after_close", nil, "%s: request modifier entered after Close() had returned", desc)
		}
		if !cl.SawEOF && !cl.SawRST {
			k.Fail("C07.closed_after_response", nil, "%s: connection still open at final quiescence", desc)
		}
		if c.reqEnter < 0 {
			// never reached the request modifier: nothing may have been written to it
			if cl.P.Total > 0 {
				k.Fail("C07.inflight_completes", map[string]string{"park_point": c.point}, "%s: %d bytes were written although no request modifier ran", desc, cl.P.Total)
			}
			continue
		}
		k.Probe("inflight_" + c.point)
		if enteredAtClose[c.idx] {
			k.Probe("entered_before_close_" + c.point)
		}
		if c.point == "busy_tunnel" {
			if len(fin) != 1 || fin[0].Status != 200 {
				k.Fail("C07.inflight_completes", map[string]string{"park_point": c.point}, "%s: the CONNECT was not answered with one 200 (%d responses)", desc, len(fin))
			}
			continue
		}
		if c.point == "connect_in_reqmod" {
			if len(fin) != 1 || fin[0].Status != 502 || !fin[0].Complete {
				k.Fail("C07.inflight_completes", map[string]string{"park_point": c.point}, "%s: the CONNECT to an unreachable target had entered its request modifier but the client did not receive a complete 502 (%d responses)", desc, len(fin))
				continue
			}
		} else if len(fin) < 1 || (len(fin) != 1 && !c.pipelined) || !respMatches(fin[0], c.resp, c.spec.Method) {
			// (requests pipelined behind the exchange may have been served as well, if shutdown had
			// not begun when they were read)
			got := "none"
			if len(fin) > 0 {
				got = fmt.Sprintf("status %d, %d of %d body bytes, complete=%v", fin[0].Status, len(fin[0].Body), len(c.resp.Body), fin[0].Complete)
			} else if cl.P.Cur != nil {
				got = fmt.Sprintf("incomplete: %d of %d body bytes", len(cl.P.Cur.Body), len(c.resp.Body))
			}
			k.Fail("C07.inflight_completes", map[string]string{"park_point": c.point, "pipelined_behind": fmt.Sprint(c.pipelined), "reset": fmt.Sprint(cl.SawRST)}, "%s: the exchange had entered its request modifier but the client did not receive the complete response (%s; parse error %v; requests pipelined behind it: %v; connection reset: %v)", desc, got, cl.P.Err, c.pipelined, cl.SawRST)
			continue
		}
		// Marked connection-close whenever shutdown had been requested before the response
		// modifier returned (afterwards the head may already be on its way).
		if c.resRet >= 0 && closeCalled < c.resRet && !fin[0].WantsClose() {
			k.Fail("C07.marked_close", map[string]string{"park_point": c.point}, "%s: response not marked Connection: close although shutdown was requested before the response modifier returned", desc)
		}
		if (len(cl.P.Raw) > 0 || cl.P.Cur != nil || cl.P.Err != nil) && !c.pipelined {
			k.Fail("C07.closed_after_response", nil, "%s: bytes after the final response", desc)
		}
	}
	k.ReleaseAll()
	n.Shutdown()
	k.Settle()
}

// callerHas reports whether one of the nearest callers' function names contains substr.
func callerHas(substr string) bool {
	pc := make([]uintptr, 8)
	nf := runtime.Callers(2, pc)
	frames := runtime.CallersFrames(pc[:nf])
	for {
		f, more := frames.Next()
		if strings.Contains(f.Function, substr) {
			return true
		}
		if !more {
			return false
		}
	}
}
