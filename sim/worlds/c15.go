package worlds

import (
	"bytes"
	"compress/flate"
	"compress/zlib"
	"compress/gzip"
	"encoding/json"
	"fmt"
	"io"
	"net/http"
	"net/url"
	"sort"
	"strings"
	"sync"
	"unicode/utf8"

	"verifsim/kernel"
	"verifsim/simnet"
	"verifsim/wire"

	"github.com/google/martian/v3"
	"github.com/google/martian/v3/har"
	"github.com/google/martian/v3/marbl"
	"github.com/google/martian/v3/martianlog"
	"github.com/google/martian/v3/messageview"
)

// World A with loggers.
// C15 — logging and snapshotting never change the message that is forwarded.
// C16 — HAR entries faithfully describe the exchange and survive a JSON round trip.
//
// The same generated workload is pushed through two fresh proxies inside one run: first without
// any logger, then with one (HAR, marbl, text logger, or a bare message snapshot). What the
// simulated origin and client receive in the two passes is compared (C15); the logger's output is
// compared with the ground truth held by the independent endpoints (C15 snapshot/skip clauses, C16).

func init() {
	real15 := []string{"martian.Proxy + net/http.Transport", "messageview (SnapshotRequest/Response, readers)", "har.Logger, marbl.Modifier/Stream, martianlog.Logger as request and response modifiers", "martian.Context.SkipLogging"}
	stub := append([]string{"raw scripted clients and origins (ground truth)", "harness marker modifier (SkipLogging, context ids)", "harness snapshot modifier calling messageview", "independent HTTP/1 and marbl parsers"}, commonStub...)
	register(&World{Name: "C15", Prop: "C15", Run: func(k *kernel.K) { runLog(k, "C15") }, MaxSteps: 40000, Real: real15, Stub: stub})
	register(&World{Name: "C16", Prop: "C16", Run: func(k *kernel.K) { runLog(k, "C16") }, MaxSteps: 40000,
		Real: []string{"martian.Proxy + net/http.Transport", "har.Logger (NewRequest, NewResponse, postData, Content/PostData JSON marshalling, options)", "messageview", "proxyutil header view"}, Stub: stub})
}

type logEx struct {
	id   int
	conn int
	req  *ReqSpec
	resp *RespSpec
	skip bool

	reqKind    string
	reqCT      string
	reqCE      string
	odd        string // an unusual-but-legal input only the twin comparison (C15) is asked to judge
	formPairs  [][2]string
	parts      []mpPart
	queryPairs [][2]string
	cookies    [][2]string
	setCookies [][2]string
	location   string
	respCT     string
	respCE     string
	respPlain  []byte // decoded response body
	cutAt      int    // > 0: the origin closes its connection after this many bytes of the response (inside the body)
	stallAt    int    // > 0: the origin pauses after this many bytes of the response until everything else has come to rest
	reqCutAt   int    // > 0: the client closes its connection after this many bytes of the request (inside the body)
}

type mpPart struct{ name, filename, ctype, value string }

func gz(b []byte) []byte {
	var buf bytes.Buffer
	w, _ := gzip.NewWriterLevel(&buf, gzip.BestSpeed)
	w.Write(b)
	w.Close()
	return buf.Bytes()
}
func defl(b []byte) []byte {
	var buf bytes.Buffer
	w, _ := flate.NewWriter(&buf, flate.BestSpeed)
	w.Write(b)
	w.Close()
	return buf.Bytes()
}

// deflZ is the "deflate" content coding as HTTP defines it: the zlib container (RFC 7230 section
// 4.2.2). defl is the bare DEFLATE stream that some senders use under the same name.
func deflZ(b []byte) []byte {
	var buf bytes.Buffer
	w, _ := zlib.NewWriterLevel(&buf, zlib.BestSpeed)
	w.Write(b)
	w.Close()
	return buf.Bytes()
}

func binBytes(k *kernel.K, n int) []byte {
	b := make([]byte, n)
	for i := range b {
		b[i] = byte(0x80 + (i*7+n)%0x7f)
	}
	if n > 0 {
		b[0] = 0xff
	}
	return b
}

func genLogEx(k *kernel.K, id, conn int, last bool, odd bool) *logEx {
	w := k.W
	e := &logEx{id: id, conn: conn}
	sizes := []int{0, 1, 17, 300, 4096, 5000, 70000, 1 << 20}
	sizeW := []int{2, 2, 4, 5, 2, 3, 2, 1}
	r := &ReqSpec{ID: id, Abs: true, Host: "origin-a.test", Path: fmt.Sprintf("/x%d/log", id)}
	// query string and cookies (HAR fields)
	for i, n := 0, w.Draw(3); i < n; i++ {
		p := [2]string{[]string{"q", "a", "q"}[w.Draw(3)], []string{"1", "two words", "%", "", "text/html;q=0.9"}[w.Pick([]int{3, 3, 3, 3, 1})]}
		e.queryPairs = append(e.queryPairs, p)
	}
	if len(e.queryPairs) > 0 {
		r.HasQ = true
		var parts []string
		for _, p := range e.queryPairs {
			v := url.QueryEscape(p[1])
			if strings.Contains(p[1], ";") {
				// ';' and '/' are legal in a query as they are (RFC 3986: pchar / "/" / "?")
				v = strings.NewReplacer("%3B", ";", "%2F", "/").Replace(v)
				k.Probe("query_value_with_semicolon")
			}
			parts = append(parts, url.QueryEscape(p[0])+"="+v)
		}
		r.Query = strings.Join(parts, "&")
	}
	for i, n := 0, w.Draw(3); i < n; i++ {
		e.cookies = append(e.cookies, [2]string{fmt.Sprintf("c%d", i), fmt.Sprintf("v%d-%d", id, i)})
	}
	if len(e.cookies) > 0 {
		var parts []string
		for _, c := range e.cookies {
			parts = append(parts, c[0]+"="+c[1])
		}
		r.Header = append(r.Header, wire.HF{Name: "Cookie", Value: strings.Join(parts, "; ")})
	}
	r.Header = append(r.Header, wire.HF{Name: "X-Req", Value: fmt.Sprint("r", id)})
	e.reqKind = []string{"none", "text", "json", "form", "multipart", "binary"}[w.Pick([]int{3, 3, 2, 3, 2, 2})]
	var entity []byte
	switch e.reqKind {
	case "none":
		r.Method = []string{"GET", "DELETE"}[w.Pick([]int{4, 1})]
	case "text":
		e.reqCT = "text/plain; charset=utf-8"
		entity = bodyBytes(id, 'q', sizes[w.Pick(sizeW)])
	case "json":
		e.reqCT = "application/json"
		entity = []byte(fmt.Sprintf(`{"id":%d,"pad":"%s"}`, id, strings.Repeat("p", w.Draw(3000))))
	case "form":
		e.reqCT = "application/x-www-form-urlencoded"
		for i, n := 0, 1+w.Draw(4); i < n; i++ {
			e.formPairs = append(e.formPairs, [2]string{[]string{"k", "name", "k"}[w.Draw(3)], []string{"v", "a b&c=d", "", "ü"}[w.Draw(4)] + fmt.Sprint(i)})
		}
		var parts []string
		for _, p := range e.formPairs {
			parts = append(parts, url.QueryEscape(p[0])+"="+url.QueryEscape(p[1]))
		}
		entity = []byte(strings.Join(parts, "&"))
		if odd && w.Chance(1, 6) {
			// legal bytes under this content type that a strict parser rejects
			entity = []byte([]string{"a=1;b=2", "k=%zz&x=1", "%"}[w.Draw(3)])
			e.odd = "form_unparseable"
			k.Probe("odd_form_unparseable")
		}
	case "multipart":
		e.reqCT = "multipart/form-data; boundary=XbOuNdArY7"
		var buf bytes.Buffer
		for i, n := 0, 1+w.Draw(3); i < n; i++ {
			p := mpPart{name: fmt.Sprintf("f%d", i), value: fmt.Sprintf("value-%d-%d", id, i)}
			if w.Chance(1, 3) {
				p.filename, p.ctype = fmt.Sprintf("file%d.bin", i), "application/octet-stream"
				p.value = string(binBytes(k, 40+w.Draw(200)))
			}
			e.parts = append(e.parts, p)
			fmt.Fprintf(&buf, "--XbOuNdArY7\r\nContent-Disposition: form-data; name=%q", p.name)
			if p.filename != "" {
				fmt.Fprintf(&buf, "; filename=%q\r\nContent-Type: %s", p.filename, p.ctype)
			}
			fmt.Fprintf(&buf, "\r\n\r\n%s\r\n", p.value)
		}
		buf.WriteString("--XbOuNdArY7--\r\n")
		entity = buf.Bytes()
	case "binary":
		e.reqCT = "application/octet-stream"
		entity = binBytes(k, sizes[w.Pick(sizeW)])
	}
	if e.reqKind != "none" {
		r.Method = []string{"POST", "PUT"}[w.Pick([]int{3, 1})]
		if (e.reqKind == "text" || e.reqKind == "binary") && w.Chance(1, 4) {
			e.reqCE = []string{"gzip", "deflate"}[w.Draw(2)]
			if e.reqCE == "gzip" {
				entity = gz(entity)
			} else if w.Chance(1, 2) {
				entity = deflZ(entity)
				k.Probe("deflate_zlib_container")
			} else {
				entity = defl(entity)
			}
			r.Header = append(r.Header, wire.HF{Name: "Content-Encoding", Value: e.reqCE})
		}
		r.Header = append(r.Header, wire.HF{Name: "Content-Type", Value: e.reqCT})
		r.Body = entity
		r.Framing = "cl"
		if w.Chance(2, 5) {
			r.Framing = "chunked"
			for i, n := 0, w.Draw(3); i < n; i++ {
				r.Chunks = append(r.Chunks, []int{1, 7, 100, 4096}[w.Draw(4)])
			}
			if w.Chance(1, 3) {
				r.Trailer = []wire.HF{{Name: "X-Req-Trailer", Value: fmt.Sprint("t", id)}}
			}
		}
	}
	r.Pipelined = false
	e.req = r

	rs := &RespSpec{Status: []int{200, 201, 404, 302, 204}[w.Pick([]int{6, 1, 2, 1, 1})]}
	e.respCT = []string{"text/plain; charset=utf-8", "text/html; charset=iso-8859-1", "application/json", "image/png", ""}[w.Pick([]int{3, 2, 2, 2, 1})]
	var plain []byte
	switch {
	case strings.HasPrefix(e.respCT, "text/html"):
		plain = append([]byte("<p>caf\xe9 "), bodyBytes(id, 'r', sizes[w.Pick(sizeW)])...)
	case e.respCT == "image/png":
		plain = binBytes(k, sizes[w.Pick(sizeW)])
	case e.respCT == "application/json":
		plain = []byte(fmt.Sprintf(`{"ok":true,"id":%d,"pad":"%s"}`, id, strings.Repeat("r", w.Draw(2000))))
	default:
		plain = bodyBytes(id, 'r', sizes[w.Pick(sizeW)])
	}
	body := plain
	switch w.Pick([]int{5, 2, 1, 1}) {
	case 1:
		e.respCE = "gzip"
		body = gz(plain)
	case 2:
		e.respCE = "deflate"
		if w.Chance(1, 2) {
			body = deflZ(plain)
			k.Probe("deflate_zlib_container")
		} else {
			body = defl(plain)
		}
	case 3:
		e.respCE = "br" // a coding the proxy does not know: bytes are left alone
	}
	if odd && e.respCE == "gzip" && w.Chance(1, 5) {
		// labelled gzip, but the bytes are not a gzip stream (a mislabelled or truncated entity is
		// still the origin's response and has to be relayed as it is)
		if w.Chance(1, 2) {
			body = plain
		} else if len(body) > 12 {
			body = body[:len(body)-9]
		}
		e.odd = "resp_coding_undecodable"
		k.Probe("odd_resp_coding_undecodable")
	}
	if e.respCT != "" {
		rs.Header = append(rs.Header, wire.HF{Name: "Content-Type", Value: e.respCT})
	}
	if e.respCE != "" {
		spelled := e.respCE
		if (e.respCE == "gzip" || e.respCE == "deflate") && w.Chance(1, 5) {
			// content-coding names are case-insensitive; "x-gzip" is to be treated as "gzip"
			spelled = map[string][]string{"gzip": {"GZIP", "Gzip", "x-gzip"}, "deflate": {"Deflate", "DEFLATE", "Deflate"}}[e.respCE][w.Draw(3)]
			k.Probe("content_coding_spelled_differently")
		}
		rs.Header = append(rs.Header, wire.HF{Name: "Content-Encoding", Value: spelled})
	}
	for i, n := 0, w.Draw(3); i < n; i++ {
		c := [2]string{fmt.Sprintf("s%d", i), fmt.Sprintf("sv%d-%d", id, i)}
		e.setCookies = append(e.setCookies, c)
		rs.Header = append(rs.Header, wire.HF{Name: "Set-Cookie", Value: c[0] + "=" + c[1] + "; Path=/"})
	}
	if rs.Status == 302 {
		e.location = fmt.Sprintf("http://origin-a.test/moved/%d", id)
		rs.Header = append(rs.Header, wire.HF{Name: "Location", Value: e.location})
	}
	rs.Header = append(rs.Header, wire.HF{Name: "X-Resp", Value: fmt.Sprint("o", id)})
	rs.Body = body
	e.respPlain = plain
	switch w.Pick([]int{4, 4, 1}) {
	case 0:
		rs.Framing = "cl"
	case 1:
		rs.Framing = "chunked"
		for i, n := 0, w.Draw(3); i < n; i++ {
			rs.Chunks = append(rs.Chunks, []int{1, 7, 100, 4096}[w.Draw(4)])
		}
		if w.Chance(1, 3) {
			rs.Trailer = []wire.HF{{Name: "X-Resp-Trailer", Value: fmt.Sprint("rt", id)}}
			if odd && w.Chance(1, 4) {
				rs.UnannouncedTrailer = true
				e.odd = "unannounced_trailer"
				k.Probe("odd_unannounced_trailer")
			}
		}
	case 2:
		if last {
			rs.Framing = "close"
		} else {
			rs.Framing = "cl"
		}
	}
	if odd && e.reqKind == "none" && rs.Status != 204 && w.Chance(1, 6) {
		// HEAD: the response carries the headers the GET would have had (framing and coding
		// included, RFC 7230 section 3.3.1) and no body
		r.Method = "HEAD"
		if rs.Framing == "chunked" {
			rs.Header = append(rs.Header, wire.HF{Name: "Transfer-Encoding", Value: "chunked"})
		} else {
			rs.HeadCL = len(rs.Body)
		}
		rs.Trailer = nil
		e.odd = "head_request"
		k.Probe("odd_head_request")
	}
	if rs.Status == 204 {
		rs.Framing, rs.Body, e.respPlain, e.respCE, rs.Trailer = "none", nil, nil, "", nil
		var hs []wire.HF
		for _, h := range rs.Header {
			if h.Name != "Content-Encoding" {
				hs = append(hs, h)
			}
		}
		rs.Header = hs
	}
	e.resp = rs
	e.skip = w.Chance(1, 6)
	if last && r.Method != "HEAD" && (rs.Framing == "cl" || rs.Framing == "chunked") && len(rs.Body) > 1 && w.Chance(1, 8) {
		// fault: the origin closes inside the response body (after at least one body byte)
		raw := rs.Encode(r.Method)
		if h := bytes.Index(raw, []byte("\r\n\r\n")) + 4; h >= 4 && len(raw)-h > 2 {
			if rs.Framing == "cl" {
				e.cutAt = h + 1 + w.Draw(len(raw)-h-1)
			} else {
				// inside the first chunk's data
				if nl := bytes.Index(raw[h:], []byte("\r\n")); nl > 0 {
					e.cutAt = h + nl + 2 + 1 + w.Draw(min(len(rs.Body), 200))
					if e.cutAt >= len(raw)-5 {
						e.cutAt = 0
					}
				}
			}
		}
		if e.cutAt > 0 {
			k.Probe("fault_origin_closes_inside_body")
		}
	} else if last && (r.Framing == "cl" || r.Framing == "chunked") && len(r.Body) > 1 && w.Chance(1, 10) {
		// fault: the client goes away inside its request body
		raw := r.Encode()
		if h := bytes.Index(raw, []byte("\r\n\r\n")) + 4; h >= 4 && len(raw)-h > 12 {
			e.reqCutAt = h + 6 + w.Draw(len(raw)-h-10)
			k.Probe("fault_client_closes_inside_request_body")
		}
	}
	return e
}

type logPass struct {
	logger     string
	originReqs map[int]*wire.Msg
	clientResp map[int]*wire.Msg
	ctxID      map[int]string
	harLog     *har.Logger
	harJSON    []byte
	marblBuf   *lockedBuf
	logLines   []string
	snaps      map[string][]byte // "req#id" / "res#id" -> snapshot bytes
	snapErr    map[string]error
	failed     string
	heldUp     []int // connections that had not finished while the origin paused inside another connection's response
}

func runLogPass(k *kernel.K, exs []*logEx, nconn int, logger string, opt map[string]bool) *logPass {
	p := &logPass{logger: logger, originReqs: map[int]*wire.Msg{}, clientResp: map[int]*wire.Msg{}, ctxID: map[int]string{}, snaps: map[string][]byte{}, snapErr: map[string]error{}}
	n := simnet.New(k)
	n.DefaultPolicy = simnet.ChunkPolicy(k.S.Pick([]int{4, 3, 0, 0, 0, 2}))
	n.DefaultCap = []int{0, 65536, 4096}[k.S.Draw(3)]
	n.TCPLikeConns = k.S.Chance(1, 2)
	proxy, l := newProxyA(k, n)
	byID := map[int]*logEx{}
	for _, e := range exs {
		byID[e.id] = e
	}
	var mu sync.Mutex
	var reqLog martian.RequestModifier
	var resLog martian.ResponseModifier
	switch logger {
	case "har":
		p.harLog = har.NewLogger()
		if opt["nobody"] {
			p.harLog.SetOption(har.BodyLogging(false), har.PostDataLogging(false))
		}
		cs := func(s string) string { return s }
		if opt["ct_mixedcase"] {
			cs = func(s string) string { return strings.ToUpper(s[:1]) + s[1:len(s)-2] + strings.ToUpper(s[len(s)-2:]) }
		}
		if opt["ct_optin"] {
			p.harLog.SetOption(har.BodyLoggingForContentTypes(cs("text/"), cs("application/json")), har.PostDataLoggingForContentTypes(cs("application/x-www-form-urlencoded"), cs("text/")))
		}
		if opt["ct_optout"] {
			p.harLog.SetOption(har.SkipBodyLoggingForContentTypes(cs("image/")), har.SkipPostDataLoggingForContentTypes(cs("application/octet-stream")))
		}
		reqLog, resLog = p.harLog, p.harLog
	case "marbl":
		p.marblBuf = &lockedBuf{}
		m := marbl.NewModifier(p.marblBuf)
		reqLog, resLog = m, m
	case "textlog":
		tl := martianlog.NewLogger()
		tl.SetHeadersOnly(opt["headers_only"])
		tl.SetDecode(opt["decode"])
		tl.SetLogFunc(func(line string) {
			mu.Lock()
			p.logLines = append(p.logLines, line)
			mu.Unlock()
		})
		reqLog, resLog = tl, tl
	case "snapshot":
		reqLog = martian.RequestModifierFunc(func(req *http.Request) error {
			mv := messageview.New()
			key := fmt.Sprintf("req#%d", exchangeID(req.URL.Path))
			if err := mv.SnapshotRequest(req); err != nil {
				p.snapErr[key] = err
				return nil
			}
			r, err := mv.Reader()
			if err != nil {
				p.snapErr[key] = err
				return nil
			}
			b, _ := io.ReadAll(r)
			mu.Lock()
			p.snaps[key] = b
			mu.Unlock()
			return nil
		})
		resLog = martian.ResponseModifierFunc(func(res *http.Response) error {
			mv := messageview.New()
			key := fmt.Sprintf("res#%d", exchangeID(res.Request.URL.Path))
			if err := mv.SnapshotResponse(res); err != nil {
				p.snapErr[key] = err
				return nil
			}
			r, err := mv.Reader()
			if err != nil {
				p.snapErr[key] = err
				return nil
			}
			b, _ := io.ReadAll(r)
			mu.Lock()
			p.snaps[key] = b
			mu.Unlock()
			return nil
		})
	}
	proxy.SetRequestModifier(martian.RequestModifierFunc(func(req *http.Request) error {
		id := exchangeID(req.URL.Path)
		ctx := martian.NewContext(req)
		mu.Lock()
		p.ctxID[id] = ctx.ID()
		mu.Unlock()
		if e := byID[id]; e != nil && e.skip {
			ctx.SkipLogging()
		}
		if reqLog != nil {
			return reqLog.ModifyRequest(req)
		}
		return nil
	}))
	proxy.SetResponseModifier(martian.ResponseModifierFunc(func(res *http.Response) error {
		if resLog != nil {
			return resLog.ModifyResponse(res)
		}
		return nil
	}))
	var heldConn *OConn
	var heldRest []byte
	heldClose, heldClient := false, -1
	origin := NewOrigin(k, n, "origin-a.test:80", func(oc *OConn, req *wire.Msg) *Reply {
		e := byID[exchangeID(req.Target)]
		if e == nil {
			return &Reply{Raw: []byte("HTTP/1.1 500 Unplanned\r\nContent-Length: 0\r\n\r\n")}
		}
		if e.cutAt > 0 {
			return &Reply{Raw: e.resp.Encode(req.Method)[:e.cutAt], CloseAfter: true}
		}
		if e.stallAt > 0 && heldConn == nil {
			raw := e.resp.Encode(req.Method)
			heldConn, heldRest, heldClose, heldClient = oc, raw[e.stallAt:], respAsksClose(e.resp, req.Method), e.conn
			return &Reply{Raw: raw[:e.stallAt]}
		}
		return &Reply{Raw: e.resp.Encode(req.Method), CloseAfter: respAsksClose(e.resp, req.Method)}
	})
	var clients []*Client
	for ci := 0; ci < nconn; ci++ {
		c := NewClient(k, l, fmt.Sprintf("%s-cl%d", logger, ci), fmt.Sprintf("10.1.0.%d", ci+2))
		clients = append(clients, c)
		for _, e := range exs {
			if e.conn == ci {
				it := c.Add(e.req)
				if e.reqCutAt > 0 {
					it.Raw, it.CloseAfter = it.Raw[:e.reqCutAt], true
				}
			}
		}
	}
	allDone := func() bool {
		for _, c := range clients {
			if !c.Done() {
				return false
			}
		}
		return true
	}
	k.RunUntil(allDone)
	if heldConn != nil {
		// the origin pauses inside one response; everything else has come to rest: what is going on
		// on the other connections must be finished by now - with a logger as without
		k.Probe("origin_pauses_inside_body")
		for ci, c := range clients {
			if ci != heldClient && !c.Done() {
				p.heldUp = append(p.heldUp, ci)
			}
		}
		heldConn.C.Inject(heldRest)
		if heldClose {
			heldConn.Closed = true
			heldConn.C.Close()
		}
		k.RunUntil(allDone)
	}
	k.Drain()
	for _, m := range origin.Requests() {
		p.originReqs[exchangeID(m.Target)] = m
	}
	for _, c := range clients {
		fin := c.P.Final()
		for j, it := range c.Script {
			if j < len(fin) {
				p.clientResp[it.Spec.ID] = fin[j]
			} else if j == len(fin) && c.P.Cur != nil && c.P.Cur.HeadDone {
				// a response that was cut short: what arrived of it
				p.clientResp[it.Spec.ID] = c.P.Cur
			}
		}
		cut := false
		for _, it := range c.Script {
			if e := byID[it.Spec.ID]; e != nil && e.cutAt > 0 {
				cut = true
			}
		}
		if c.P.Err != nil && !cut {
			p.failed = fmt.Sprintf("%s: client stream unparseable: %v", c.Name, c.P.Err)
		}
	}
	if p.harLog != nil {
		p.harJSON, _ = json.Marshal(p.harLog.Export())
	}
	for _, c := range clients {
		c.CloseNow()
	}
	k.Drain()
	n.Shutdown()
	k.Settle()
	return p
}

func msgAspectDiff(a, b *wire.Msg) (string, string) {
	if a == nil || b == nil {
		return "presence", fmt.Sprintf("present without logger=%v, with logger=%v", a != nil, b != nil)
	}
	if a.Complete != b.Complete {
		return "complete", fmt.Sprintf("complete %v vs %v", a.Complete, b.Complete)
	}
	if a.IsReq && (a.Method != b.Method || a.Target != b.Target) || !a.IsReq && a.Status != b.Status {
		return "start_line", fmt.Sprintf("%s %s %d vs %s %s %d", a.Method, a.Target, a.Status, b.Method, b.Target, b.Status)
	}
	if a.Framing != b.Framing {
		return "framing", fmt.Sprintf("framing %s (declared length %d) without logger, %s (declared length %d) with logger", a.Framing, a.DeclaredCL, b.Framing, b.DeclaredCL)
	}
	ha, hb := wire.HeaderMap(a.Header), wire.HeaderMap(b.Header)
	for _, name := range sortedKeys(ha) {
		if !sameValues(ha[name], hb[name]) {
			return "headers", fmt.Sprintf("header %s: %q vs %q", name, ha[name], hb[name])
		}
	}
	for _, name := range sortedKeys(hb) {
		if _, ok := ha[name]; !ok {
			return "headers", fmt.Sprintf("header %s only with logger: %q", name, hb[name])
		}
	}
	if d := firstDiff(a.Body, b.Body); d >= 0 {
		return "body", fmt.Sprintf("body differs at offset %d (%d bytes without logger, %d with)", d, len(a.Body), len(b.Body))
	}
	ta, tb := wire.HeaderMap(a.Trailer), wire.HeaderMap(b.Trailer)
	if fmt.Sprint(ta) != fmt.Sprint(tb) {
		return "trailers", fmt.Sprintf("trailers %v vs %v", ta, tb)
	}
	return "", ""
}

func runLog(k *kernel.K, focus string) {
	w := k.W
	nconn := w.Range(1, 2)
	var exs []*logEx
	id := 1
	for ci := 0; ci < nconn; ci++ {
		nreq := w.Range(1, 4)
		for j := 0; j < nreq; j++ {
			exs = append(exs, genLogEx(k, id, ci, j == nreq-1, focus == "C15"))
			id++
		}
	}
	logger := []string{"har", "marbl", "textlog", "snapshot"}[w.Pick([]int{4, 2, 2, 3})]
	if focus == "C16" {
		logger = "har"
	}
	opt := map[string]bool{}
	switch logger {
	case "har":
		switch w.Pick([]int{4, 1, 2, 2}) {
		case 1:
			opt["nobody"] = true
		case 2:
			opt["ct_optin"] = true
			opt["ct_mixedcase"] = w.Chance(1, 2) // media types compare without regard to case
		case 3:
			opt["ct_optout"] = true
			opt["ct_mixedcase"] = w.Chance(1, 2)
		}
	case "textlog":
		opt["headers_only"], opt["decode"] = w.Chance(1, 3), w.Chance(1, 2)
	}
	for _, e := range exs {
		k.Note("c%d #%d %s %s body=%s/%s/%dB ce=%q trailers=%d skip=%v -> %d %s ct=%q ce=%q %dB trailers=%d", e.conn, e.id, e.req.Method, e.req.Target(), e.reqKind, e.req.Framing, len(e.req.Body), e.reqCE, len(e.req.Trailer), e.skip, e.resp.Status, e.resp.Framing, e.respCT, e.respCE, len(e.resp.Body), len(e.resp.Trailer))
	}
	k.Note("logger=%s options=%v", logger, opt)
	k.Logf("workload %v %s %v", len(exs), logger, opt)

	// With two connections, sometimes the origin pauses inside one response until everything else
	// has come to rest: the exchanges on the other connection must not wait for it - with a logger
	// as without.
	if nconn == 2 && w.Chance(1, 3) {
		var cand []*logEx
		for _, e := range exs {
			if e.cutAt == 0 && e.reqCutAt == 0 && e.req.Method != "HEAD" && (e.resp.Framing == "cl" || e.resp.Framing == "chunked") && len(e.resp.Body) > 1 {
				cand = append(cand, e)
			}
		}
		if len(cand) > 0 {
			e := cand[w.Draw(len(cand))]
			raw := e.resp.Encode(e.req.Method)
			if h := bytes.Index(raw, []byte("\r\n\r\n")) + 4; h >= 4 && len(raw)-h > 2 {
				e.stallAt = h + 1 + w.Draw(len(raw)-h-2)
			}
		}
	}
	plain := runLogPass(k, exs, nconn, "none", nil)
	logged := runLogPass(k, exs, nconn, logger, opt)
	if k.Inconclusive != "" {
		return
	}
	if len(logged.heldUp) > len(plain.heldUp) {
		k.Fail(focus+".twin_response", map[string]string{"logger": logger, "aspect": "other_connection_held_up", "fault": "origin_pauses_inside_body"}, "the origin paused inside a response on one connection until everything else had come to rest: without a logger the other connection had finished its exchanges by then (unfinished connections: %v), with logger %s %v it had not (unfinished: %v) - its exchanges wait for a body that is not theirs", plain.heldUp, logger, opt, logged.heldUp)
		return
	}
	if plain.failed != "" || logged.failed != "" {
		k.Fail(focus+".twin_response", map[string]string{"logger": logger, "aspect": "stream"}, "client stream could not be parsed: without logger %q, with logger %q", plain.failed, logged.failed)
		return
	}
	if focus == "C15" {
		for _, e := range exs {
			desc := fmt.Sprintf("exchange #%d (%s %s, request body %s/%s %dB ce=%q trailers=%d; response %d %s %dB ce=%q trailers=%d; logger %s %v, skip=%v, origin closes after %d bytes of the response (0: never))", e.id, e.req.Method, e.req.Target(), e.reqKind, e.req.Framing, len(e.req.Body), e.reqCE, len(e.req.Trailer), e.resp.Status, e.resp.Framing, len(e.resp.Body), e.respCE, len(e.resp.Trailer), logger, opt, e.skip, e.cutAt)
			if e.reqCutAt > 0 {
				// The client went away inside its request body. How much of the partial body reaches
				// the origin depends on where the transport's buffer was flushed, which depends on
				// segmentation; what must not differ is the head, and each side's body is a prefix of
				// what the client sent.
				a, b := plain.originReqs[e.id], logged.originReqs[e.id]
				if a != nil && b != nil && !a.Complete && b.Complete {
					// the client never finished its request: nobody can have seen the end of it
					k.Fail("C15.twin_request", map[string]string{"logger": logger, "aspect": "complete", "fault": "client_closes_inside_body"}, "%s: the client closed after %d bytes of its request, inside the body; without a logger the origin received an incomplete request (%d body bytes), with the logger a complete, well-framed one (%d body bytes)", desc, e.reqCutAt, len(a.Body), len(b.Body))
				}
				if a != nil && b != nil {
					ha, hb := wire.HeaderMap(a.Header), wire.HeaderMap(b.Header)
					for _, name := range sortedKeys(hb) {
						if !sameValues(ha[name], hb[name]) {
							k.Fail("C15.twin_request", map[string]string{"logger": logger, "aspect": "headers", "fault": "client_closes_inside_body"}, "%s: the client closed after %d bytes of its request; header %s of what the origin received: %q without logger, %q with", desc, e.reqCutAt, name, ha[name], hb[name])
							break
						}
					}
				}
				continue
			}
			if asp, d := msgAspectDiff(plain.originReqs[e.id], logged.originReqs[e.id]); asp != "" {
				k.Fail("C15.twin_request", map[string]string{"logger": logger, "aspect": asp}, "%s: the request the origin received differs from the unlogged twin: %s", desc, d)
			}
			if asp, d := msgAspectDiff(plain.clientResp[e.id], logged.clientResp[e.id]); asp != "" {
				params := map[string]string{"logger": logger, "aspect": asp}
				if e.odd == "unannounced_trailer" && strings.Contains(d, "trailer") {
					params["trailer_announced"] = "false"
				}
				if e.cutAt > 0 {
					params["fault"] = "origin_closes_inside_body"
				}
				k.Fail("C15.twin_response", params, "%s: the response the client received differs from the unlogged twin: %s", desc, d)
			}
			c15Skip(k, e, logged, desc)
			if logger == "snapshot" && e.cutAt == 0 {
				// (of a response that was cut short the snapshot is what arrived, not a complete message)
				c15Snapshot(k, e, logged, desc)
			}
		}
		k.Probe("logger_" + logger)
		return
	}
	c16Check(k, exs, logged, opt)
}

// c15Skip: an exchange marked to skip logging is recorded by none of the loggers.
func c15Skip(k *kernel.K, e *logEx, p *logPass, desc string) {
	if !e.skip || p.logger == "snapshot" || p.logger == "none" {
		return
	}
	k.Probe("skip_marked_exchange")
	cid := p.ctxID[e.id]
	recorded := false
	switch p.logger {
	case "har":
		for _, en := range p.harLog.Export().Log.Entries {
			if en.ID == cid {
				recorded = true
			}
		}
	case "marbl":
		frames, _ := parseMarbl(p.marblBuf.Bytes())
		for _, f := range frames {
			if len(cid) >= 8 && f.ID == cid[:8] {
				recorded = true
			}
		}
	case "textlog":
		for _, l := range p.logLines {
			if strings.Contains(l, fmt.Sprintf("/x%d/log", e.id)) {
				recorded = true
			}
		}
	}
	if recorded {
		k.Fail("C15.skip_respected", map[string]string{"logger": p.logger}, "%s: the exchange was marked to skip logging but the %s logger recorded it", desc, p.logger)
	}
}

// c15Snapshot: the snapshot is a parseable HTTP message equal to the original.
func c15Snapshot(k *kernel.K, e *logEx, p *logPass, desc string) {
	for _, side := range []string{"req", "res"} {
		key := fmt.Sprintf("%s#%d", side, e.id)
		if err := p.snapErr[key]; err != nil {
			k.Fail("C15.snapshot_parse", map[string]string{"side": side, "trailers": "n/a"}, "%s: snapshot failed: %v", desc, err)
			continue
		}
		b, ok := p.snaps[key]
		if !ok {
			continue
		}
		var ps *wire.Parser
		var trailers int
		if side == "req" {
			ps = wire.NewReqParser()
			trailers = len(e.req.Trailer)
		} else {
			ps = wire.NewRespParser()
			ps.Expect(e.req.Method)
			trailers = len(e.resp.Trailer)
		}
		ps.Feed(b)
		ps.End()
		params := map[string]string{"side": side, "trailers": fmt.Sprint(trailers > 0)}
		if ps.Err != nil || len(ps.Msgs) != 1 || !ps.Msgs[0].Complete || ps.Cur != nil || len(ps.Buffered()) > 0 {
			state := "incomplete"
			if ps.Err != nil {
				state = ps.Err.Error()
			} else if len(ps.Msgs) > 1 {
				state = "more than one message"
			}
			k.Fail("C15.snapshot_parse", params, "%s: the %s snapshot does not parse as one complete HTTP message (%s); tail %q", desc, side, state, tail(b, 60))
			continue
		}
		m := ps.Msgs[0]
		// compare with the original as the origin / client saw it in the unlogged pass
		var wantBody []byte
		var wantTrailer []wire.HF
		if side == "req" {
			wantBody, wantTrailer = e.req.Body, e.req.Trailer
			if m.Method != e.req.Method {
				k.Fail("C15.snapshot_equal", params, "%s: snapshot method %s", desc, m.Method)
			}
		} else {
			wantBody, wantTrailer = e.resp.Body, e.resp.Trailer
			if e.req.Method == "HEAD" || e.resp.Status == 204 {
				wantBody = nil
			}
			if m.Status != e.resp.Status {
				k.Fail("C15.snapshot_equal", params, "%s: snapshot status %d", desc, m.Status)
			}
		}
		// framing: the snapshot frames the message the way the original was framed
		wantFraming := e.req.Framing
		if side == "res" {
			wantFraming = e.resp.Framing
			if e.resp.Status == 204 || e.req.Method == "HEAD" {
				wantFraming = "none"
			}
		} else if wantFraming == "" {
			wantFraming = "none"
		}
		gotFraming := m.Framing
		if gotFraming == "cl" && m.DeclaredCL == 0 && wantFraming == "none" {
			gotFraming = "none" // an explicit zero length and no body are the same message
		}
		if gotFraming != wantFraming && !(wantFraming == "close" && gotFraming == "cl") {
			k.Fail("C15.snapshot_equal", params, "%s: %s snapshot is framed %q (declared length %d), the message was framed %q", desc, side, m.Framing, m.DeclaredCL, wantFraming)
		}
		if d := firstDiff(m.Body, wantBody); d >= 0 {
			k.Fail("C15.snapshot_equal", params, "%s: %s snapshot body differs from the message at offset %d (%d vs %d bytes)", desc, side, d, len(m.Body), len(wantBody))
		}
		wt, gt := wire.HeaderMap(wantTrailer), wire.HeaderMap(m.Trailer)
		if fmt.Sprint(wt) != fmt.Sprint(gt) {
			k.Fail("C15.snapshot_equal", params, "%s: %s snapshot trailers %v, message trailers %v", desc, side, gt, wt)
		}
	}
	k.Probe("snapshot_checked")
}

func pairsSorted(ps [][2]string) string {
	var out []string
	for _, p := range ps {
		out = append(out, p[0]+"="+p[1])
	}
	sort.Strings(out)
	return strings.Join(out, "&")
}

// c16Check compares HAR entries with the ground truth of the independent endpoints.
func c16Check(k *kernel.K, exs []*logEx, p *logPass, opt map[string]bool) {
	exp := p.harLog.Export()
	byCtx := map[string]*har.Entry{}
	for _, en := range exp.Log.Entries {
		byCtx[en.ID] = en
	}
	var rt har.HAR
	rtErr := json.Unmarshal(p.harJSON, &rt)
	rtBy := map[string]*har.Entry{}
	if rtErr == nil && rt.Log != nil {
		for _, en := range rt.Log.Entries {
			rtBy[en.ID] = en
		}
	}
	for _, e := range exs {
		if e.skip {
			continue
		}
		if e.reqCutAt > 0 {
			// the client went away inside its request: the exchange never took place as planned
			// (the origin's response does not exist); what its entry should hold is not stated
			continue
		}
		desc := fmt.Sprintf("exchange #%d (%s %s, body %s/%s %dB ce=%q; response %d %s ct=%q ce=%q %dB; options %v)", e.id, e.req.Method, e.req.Target(), e.reqKind, e.req.Framing, len(e.req.Body), e.reqCE, e.resp.Status, e.resp.Framing, e.respCT, e.respCE, len(e.resp.Body), opt)
		en := byCtx[p.ctxID[e.id]]
		if en == nil || en.Request == nil {
			k.Fail("C16.request_fields", map[string]string{"field": "entry"}, "%s: no HAR entry", desc)
			continue
		}
		rq := en.Request
		if rq.Method != e.req.Method {
			k.Fail("C16.request_fields", map[string]string{"field": "method"}, "%s: entry method %q", desc, rq.Method)
		}
		if rq.URL != e.req.Target() {
			k.Fail("C16.request_fields", map[string]string{"field": "url"}, "%s: entry URL %q", desc, rq.URL)
		}
		if rq.HTTPVersion != "HTTP/1.1" {
			k.Fail("C16.request_fields", map[string]string{"field": "httpVersion"}, "%s: entry HTTP version %q", desc, rq.HTTPVersion)
		}
		// headers: everything the client sent, plus Host and the framing header
		want := map[string][]string{"host": {e.req.Host}}
		for _, h := range e.req.Header {
			want[strings.ToLower(h.Name)] = append(want[strings.ToLower(h.Name)], h.Value)
		}
		switch e.req.Framing {
		case "cl":
			want["content-length"] = []string{fmt.Sprint(len(e.req.Body))}
		case "chunked":
			want["transfer-encoding"] = []string{"chunked"}
			if len(e.req.Trailer) > 0 {
				want["trailer"] = []string{e.req.Trailer[0].Name}
			}
		}
		got := map[string][]string{}
		for _, h := range rq.Headers {
			got[strings.ToLower(h.Name)] = append(got[strings.ToLower(h.Name)], h.Value)
		}
		for _, name := range sortedKeys(want) {
			a, b := append([]string(nil), want[name]...), append([]string(nil), got[name]...)
			sort.Strings(a)
			sort.Strings(b)
			if !sameValues(a, b) {
				k.Fail("C16.request_fields", map[string]string{"field": "header:" + name}, "%s: entry request header %s = %q, client sent %q", desc, name, got[name], want[name])
			}
		}
		var qs [][2]string
		for _, q := range rq.QueryString {
			qs = append(qs, [2]string{q.Name, q.Value})
		}
		if pairsSorted(qs) != pairsSorted(e.queryPairs) {
			k.Fail("C16.request_fields", map[string]string{"field": "queryString"}, "%s: entry query parameters %q, sent %q", desc, pairsSorted(qs), pairsSorted(e.queryPairs))
		}
		var cs [][2]string
		for _, c := range rq.Cookies {
			cs = append(cs, [2]string{c.Name, c.Value})
		}
		if pairsSorted(cs) != pairsSorted(e.cookies) {
			k.Fail("C16.request_fields", map[string]string{"field": "cookies"}, "%s: entry request cookies %q, sent %q", desc, pairsSorted(cs), pairsSorted(e.cookies))
		}
		// post data
		logPD := true
		switch {
		case opt["nobody"]:
			logPD = false
		case opt["ct_optin"]:
			logPD = strings.HasPrefix(e.reqCT, "application/x-www-form-urlencoded") || strings.HasPrefix(e.reqCT, "text/")
		case opt["ct_optout"]:
			logPD = !strings.HasPrefix(e.reqCT, "application/octet-stream")
		}
		pdParams := map[string]string{"framing": e.req.Framing, "content_type": e.reqKind}
		originReq := p.originReqs[e.id]
		switch {
		case e.reqKind == "none" || (len(e.req.Body) == 0 && e.req.Framing == "cl"):
			if rq.PostData != nil && (rq.PostData.Text != "" || len(rq.PostData.Params) > 0) {
				k.Fail("C16.post_data", pdParams, "%s: entry has post data for a request without body", desc)
			}
		case rq.PostData == nil:
			k.Fail("C16.post_data", pdParams, "%s: entry has no postData although the request has a body", desc)
		case !logPD:
			k.Probe("post_data_capture_disabled")
			if rq.PostData.Text != "" || len(rq.PostData.Params) > 0 {
				k.Fail("C16.capture_options", map[string]string{"side": "request"}, "%s: post data captured although the options exclude content type %q", desc, e.reqCT)
			}
		default:
			k.Probe("post_data_" + e.reqKind + "_" + e.req.Framing)
			wantBody := e.req.Body
			if originReq != nil {
				wantBody = originReq.Body
			}
			switch e.reqKind {
			case "form":
				var ps [][2]string
				for _, pr := range rq.PostData.Params {
					ps = append(ps, [2]string{pr.Name, pr.Value})
				}
				if pairsSorted(ps) != pairsSorted(e.formPairs) {
					k.Fail("C16.post_data", pdParams, "%s: entry form parameters %q, body carried %q", desc, pairsSorted(ps), pairsSorted(e.formPairs))
				}
			case "multipart":
				ok := len(rq.PostData.Params) == len(e.parts)
				for i := 0; ok && i < len(e.parts); i++ {
					pr := rq.PostData.Params[i]
					ok = pr.Name == e.parts[i].name && pr.Filename == e.parts[i].filename && pr.Value == e.parts[i].value && pr.ContentType == e.parts[i].ctype
				}
				if !ok {
					k.Fail("C16.post_data", pdParams, "%s: entry multipart parameters do not match the %d parts sent (entry has %d)", desc, len(e.parts), len(rq.PostData.Params))
				}
			default:
				if d := firstDiff([]byte(rq.PostData.Text), wantBody); d >= 0 {
					k.Fail("C16.post_data", pdParams, "%s: entry post data text (%d bytes) differs from the request body the origin received (%d bytes) at offset %d: got %s", desc, len(rq.PostData.Text), len(wantBody), d, excerpt([]byte(rq.PostData.Text), d))
				}
			}
		}
		// response
		rs := en.Response
		if rs == nil {
			k.Fail("C16.response_fields", map[string]string{"field": "entry"}, "%s: entry has no response", desc)
			continue
		}
		if rs.Status != e.resp.Status {
			k.Fail("C16.response_fields", map[string]string{"field": "status"}, "%s: entry status %d", desc, rs.Status)
		}
		if rs.RedirectURL != e.location {
			k.Fail("C16.response_fields", map[string]string{"field": "redirectURL"}, "%s: entry redirect URL %q, Location %q", desc, rs.RedirectURL, e.location)
		}
		wantH := map[string][]string{}
		for _, h := range e.resp.Header {
			wantH[strings.ToLower(h.Name)] = append(wantH[strings.ToLower(h.Name)], h.Value)
		}
		// the framing header the origin sent is part of the message
		if e.req.Method != "HEAD" && e.resp.Status != 204 {
			switch e.resp.Framing {
			case "cl":
				wantH["content-length"] = []string{fmt.Sprint(len(e.resp.Body))}
			case "chunked":
				wantH["transfer-encoding"] = []string{"chunked"}
			}
		}
		gotH := map[string][]string{}
		for _, h := range rs.Headers {
			gotH[strings.ToLower(h.Name)] = append(gotH[strings.ToLower(h.Name)], h.Value)
		}
		for _, name := range sortedKeys(wantH) {
			a, b := append([]string(nil), wantH[name]...), append([]string(nil), gotH[name]...)
			sort.Strings(a)
			sort.Strings(b)
			if !sameValues(a, b) {
				k.Fail("C16.response_fields", map[string]string{"field": "header:" + name}, "%s: entry response header %s = %q, origin sent %q", desc, name, gotH[name], wantH[name])
			}
		}
		var scs [][2]string
		for _, c := range rs.Cookies {
			scs = append(scs, [2]string{c.Name, c.Value})
		}
		if pairsSorted(scs) != pairsSorted(e.setCookies) {
			k.Fail("C16.response_fields", map[string]string{"field": "cookies"}, "%s: entry response cookies %q, origin set %q", desc, pairsSorted(scs), pairsSorted(e.setCookies))
		}
		logBody := true
		switch {
		case opt["nobody"]:
			logBody = false
		case opt["ct_optin"]:
			logBody = strings.HasPrefix(e.respCT, "text/") || strings.HasPrefix(e.respCT, "application/json")
		case opt["ct_optout"]:
			logBody = !strings.HasPrefix(e.respCT, "image/")
		}
		if rs.Content == nil {
			k.Fail("C16.content", map[string]string{"content_encoding": e.respCE}, "%s: entry has no content object", desc)
			continue
		}
		if e.cutAt > 0 {
			// the origin closed inside the body: status, headers and cookies describe the message
			// (judged above); which part of the body is the content is not stated
			k.Probe("entry_of_response_cut_short")
			// ... except that it is part of the body: with no content coding, whatever the entry
			// holds must be a prefix of the body the origin was sending - message framing (chunk
			// sizes, line ends) is not content - and its size must be the size of what it holds.
			if logBody && e.respCE == "" && e.req.Method != "HEAD" {
				if !bytes.HasPrefix(e.resp.Body, rs.Content.Text) {
					k.Fail("C16.content", map[string]string{"content_encoding": "", "framing": e.resp.Framing, "fault": "origin_closes_inside_body"}, "%s: the origin closed inside the body; the entry's content (%d bytes, %q...) is not a prefix of the body it was sending", desc, len(rs.Content.Text), clipStr(string(rs.Content.Text), 40))
				} else if rs.Content.Size != int64(len(rs.Content.Text)) {
					k.Fail("C16.content", map[string]string{"content_encoding": "", "framing": e.resp.Framing, "fault": "origin_closes_inside_body"}, "%s: the origin closed inside the body; the entry holds %d bytes of content and gives its size as %d", desc, len(rs.Content.Text), rs.Content.Size)
				}
			}
			continue
		}
		wantContent := e.respPlain
		if e.respCE == "br" {
			wantContent = e.resp.Body // unknown coding: left as sent
		}
		if e.req.Method == "HEAD" {
			wantContent = nil
		}
		if !logBody {
			k.Probe("body_capture_disabled")
			if len(rs.Content.Text) > 0 {
				k.Fail("C16.capture_options", map[string]string{"side": "response"}, "%s: response body captured although the options exclude content type %q", desc, e.respCT)
			}
		} else {
			k.Probe("content_" + map[bool]string{true: "binary", false: "text"}[e.respCT == "image/png" || strings.Contains(e.respCT, "8859")] + "_" + e.resp.Framing)
			if d := firstDiff(rs.Content.Text, wantContent); d >= 0 {
				k.Fail("C16.content", map[string]string{"content_encoding": e.respCE, "framing": e.resp.Framing}, "%s: entry content (%d bytes) differs from the decoded response body (%d bytes) at offset %d", desc, len(rs.Content.Text), len(wantContent), d)
			} else if rs.Content.Size != int64(len(wantContent)) {
				k.Fail("C16.content", map[string]string{"content_encoding": e.respCE, "framing": e.resp.Framing}, "%s: entry content size %d, decoded body has %d bytes", desc, rs.Content.Size, len(wantContent))
			}
		}
		if rs.Content.MimeType != e.respCT {
			k.Fail("C16.response_fields", map[string]string{"field": "mimeType"}, "%s: entry mime type %q, Content-Type %q", desc, rs.Content.MimeType, e.respCT)
		}
		// JSON round trip
		if rtErr != nil {
			k.Fail("C16.json_roundtrip", nil, "%s: exported log does not unmarshal: %v", desc, rtErr)
			continue
		}
		ren := rtBy[en.ID]
		switch {
		case ren == nil || ren.Request == nil || ren.Response == nil:
			k.Fail("C16.json_roundtrip", nil, "%s: entry lost in the JSON round trip", desc)
		case !bytes.Equal(ren.Response.Content.Text, rs.Content.Text) || ren.Response.Content.Size != rs.Content.Size:
			k.Fail("C16.json_roundtrip", map[string]string{"part": "content"}, "%s: response content changed in the JSON round trip (%d -> %d bytes)", desc, len(rs.Content.Text), len(ren.Response.Content.Text))
		case (rq.PostData == nil) != (ren.Request.PostData == nil) || (rq.PostData != nil && (rq.PostData.Text != ren.Request.PostData.Text || fmt.Sprint(rq.PostData.Params) != fmt.Sprint(ren.Request.PostData.Params))):
			nonUTF8 := false
			for _, pt := range e.parts {
				if !utf8.ValidString(pt.value) {
					nonUTF8 = true
				}
			}
			k.Fail("C16.json_roundtrip", map[string]string{"part": "postData", "kind": e.reqKind, "non_utf8_param": fmt.Sprint(nonUTF8)}, "%s: post data changed in the JSON round trip", desc)
		case ren.Request.URL != rq.URL || ren.Request.Method != rq.Method || ren.Response.Status != rs.Status || fmt.Sprint(ren.Request.Headers) != fmt.Sprint(rq.Headers) || fmt.Sprint(ren.Response.Headers) != fmt.Sprint(rs.Headers):
			k.Fail("C16.json_roundtrip", map[string]string{"part": "fields"}, "%s: entry fields changed in the JSON round trip", desc)
		}
	}
}
