package worlds

import (
	"bytes"
	"fmt"
	"os"
	"sort"
	"strconv"
	"strings"
	"time"

	"verifsim/kernel"
	"verifsim/simnet"
	"verifsim/wire"

	"github.com/google/martian/v3"
	mlog "github.com/google/martian/v3/log"
)

type nullLogger struct{}

func (nullLogger) Infof(string, ...interface{})  {}
func (nullLogger) Debugf(string, ...interface{}) {}
func (nullLogger) Errorf(f string, a ...interface{}) {
	if os.Getenv("VERIF_SUTLOG") != "" {
		fmt.Fprintf(os.Stderr, "SUT ERROR: "+f+"\n", a...)
	}
}

func init() { mlog.SetLogger(nullLogger{}) }

// bodyBytes returns n bytes that are a function of (id, side, offset): every 16-byte block is
// "[<side><id>@<offset>]", so truncation, duplication and cross-talk are localisable.
func bodyBytes(id int, side byte, n int) []byte {
	b := make([]byte, 0, n+16)
	for off := 0; len(b) < n; off += 16 {
		b = append(b, fmt.Sprintf("[%c%04d@%08x]", side, id%10000, off)...)
	}
	return b[:n]
}

// firstDiff returns the first offset at which a and b differ (or the shorter length), -1 if equal.
func firstDiff(a, b []byte) int {
	n := len(a)
	if len(b) < n {
		n = len(b)
	}
	for i := 0; i < n; i++ {
		if a[i] != b[i] {
			return i
		}
	}
	if len(a) != len(b) {
		return n
	}
	return -1
}

func excerpt(b []byte, at int) string {
	lo, hi := at-16, at+24
	if lo < 0 {
		lo = 0
	}
	if hi > len(b) {
		hi = len(b)
	}
	if lo > hi {
		lo = hi
	}
	return strconv.Quote(string(b[lo:hi]))
}

func lenClass(n int) string {
	switch {
	case n == 0:
		return "0"
	case n < 4096:
		return "<4K"
	case n <= 65536:
		return "4K-64K"
	default:
		return ">64K"
	}
}

// ReqSpec describes one client request.
type ReqSpec struct {
	ID        int
	Method    string
	Abs       bool
	Host      string // authority of the origin, e.g. "origin.test" or "origin.test:8081"
	Path      string
	Query     string // without '?'; "" and HasQ distinguishes "/p?" from "/p"
	HasQ      bool
	Header    []wire.HF
	Framing   string // none | cl | chunked
	Body      []byte
	Chunks    []int
	Trailer   []wire.HF
	Proto     string
	Close     bool
	Pipelined bool
	NoHost    bool
	Scheme    string // for absolute-form, default http
}

// Target returns the request target as written on the wire.
func (r *ReqSpec) Target() string {
	t := r.Path
	if r.HasQ {
		t += "?" + r.Query
	}
	if r.Abs {
		sc := r.Scheme
		if sc == "" {
			sc = "http"
		}
		return sc + "://" + r.Host + t
	}
	return t
}

// PathQuery returns path?query as the origin must see it.
func (r *ReqSpec) PathQuery() string {
	t := r.Path
	if r.HasQ {
		t += "?" + r.Query
	}
	return t
}

func encodeBody(w *bytes.Buffer, framing string, body []byte, chunks []int, trailer []wire.HF) {
	switch framing {
	case "cl", "close":
		w.Write(body)
	case "chunked":
		off := 0
		ci := 0
		for off < len(body) {
			n := len(body) - off
			if ci < len(chunks) && chunks[ci] > 0 && chunks[ci] < n {
				n = chunks[ci]
			}
			ci++
			fmt.Fprintf(w, "%x\r\n", n)
			w.Write(body[off : off+n])
			w.WriteString("\r\n")
			off += n
		}
		w.WriteString("0\r\n")
		for _, t := range trailer {
			fmt.Fprintf(w, "%s: %s\r\n", t.Name, t.Value)
		}
		w.WriteString("\r\n")
	}
}

// Encode renders the request bytes.
func (r *ReqSpec) Encode() []byte {
	var w bytes.Buffer
	proto := r.Proto
	if proto == "" {
		proto = "HTTP/1.1"
	}
	fmt.Fprintf(&w, "%s %s %s\r\n", r.Method, r.Target(), proto)
	if !r.NoHost {
		fmt.Fprintf(&w, "Host: %s\r\n", r.Host)
	}
	for _, h := range r.Header {
		fmt.Fprintf(&w, "%s: %s\r\n", h.Name, h.Value)
	}
	if r.Close {
		w.WriteString("Connection: close\r\n")
	}
	switch r.Framing {
	case "cl":
		fmt.Fprintf(&w, "Content-Length: %d\r\n", len(r.Body))
	case "chunked":
		w.WriteString("Transfer-Encoding: chunked\r\n")
		if len(r.Trailer) > 0 {
			names := make([]string, len(r.Trailer))
			for i, t := range r.Trailer {
				names[i] = t.Name
			}
			fmt.Fprintf(&w, "Trailer: %s\r\n", strings.Join(names, ", "))
		}
	}
	w.WriteString("\r\n")
	encodeBody(&w, r.Framing, r.Body, r.Chunks, r.Trailer)
	return w.Bytes()
}

// RespSpec describes one origin response.
type RespSpec struct {
	Status             int
	Reason             string
	Proto              string
	Header             []wire.HF
	Framing            string // none | cl | chunked | close
	Body               []byte
	Chunks             []int
	Trailer            []wire.HF
	HeadChunked        bool // the response to HEAD names Transfer-Encoding: chunked (in Header)
	UnannouncedTrailer bool // send the trailer fields without naming them in a Trailer header (a SHOULD, RFC 7230 4.4)
	Close              bool // send Connection: close and close after the response
	// HeadCL, for responses to HEAD: advertise this Content-Length without a body.
	HeadCL int
}

// Encode renders the response bytes for a request with the given method.
func (r *RespSpec) Encode(method string) []byte {
	var w bytes.Buffer
	proto := r.Proto
	if proto == "" {
		proto = "HTTP/1.1"
	}
	reason := r.Reason
	if reason == "" {
		reason = "Status"
	}
	fmt.Fprintf(&w, "%s %03d %s\r\n", proto, r.Status, reason)
	for _, h := range r.Header {
		fmt.Fprintf(&w, "%s: %s\r\n", h.Name, h.Value)
	}
	if r.Close && r.Framing != "close" || (r.Framing == "close" && proto == "HTTP/1.1") {
		w.WriteString("Connection: close\r\n")
	}
	bodiless := method == "HEAD" || r.Status == 204 || r.Status == 304 || r.Framing == "none"
	switch {
	case method == "HEAD" && r.HeadCL > 0:
		fmt.Fprintf(&w, "Content-Length: %d\r\n", r.HeadCL)
	case bodiless && r.Status != 204 && r.Status != 304 && method != "HEAD":
		w.WriteString("Content-Length: 0\r\n")
	case bodiless:
	case r.Framing == "cl":
		fmt.Fprintf(&w, "Content-Length: %d\r\n", len(r.Body))
	case r.Framing == "chunked":
		w.WriteString("Transfer-Encoding: chunked\r\n")
		if len(r.Trailer) > 0 && !r.UnannouncedTrailer {
			names := make([]string, len(r.Trailer))
			for i, t := range r.Trailer {
				names[i] = t.Name
			}
			fmt.Fprintf(&w, "Trailer: %s\r\n", strings.Join(names, ", "))
		}
	}
	w.WriteString("\r\n")
	if !bodiless {
		encodeBody(&w, r.Framing, r.Body, r.Chunks, r.Trailer)
	}
	return w.Bytes()
}

// ---------------------------------------------------------------------------------------

// ClientItem is one scripted write of a raw client.
type ClientItem struct {
	expectDone bool
	Raw        []byte
	Method     string // "" for garbage
	Pipelined  bool
	Spec       *ReqSpec
	SentStep   int
	Sent       bool
	CloseAfter bool // client closes its end after sending this item
	// SplitAt > 0: the first SplitAt bytes are written as soon as the item may be sent
	// (pipelined), the rest only once every earlier response has been received.
	SplitAt  int
	partSent bool
}

// Client is a controller-driven raw client of the proxy.
type Client struct {
	k       *kernel.K
	Name    string
	C       *simnet.Conn
	P       *wire.Parser
	Script  []*ClientItem
	next    int
	SawEOF  bool
	SawRST  bool
	EOFStep int
	// Hold, when set, prevents further sends.
	Hold bool
	// BytesAtEOF is P.Total when EOF was seen.
	closedSelf bool
	// KeepOpenAfterEOF: do not close this end when the peer's end-of-file arrives.
	KeepOpenAfterEOF bool
	closedAfterEOF   bool
	// RespStep[i] is the step at which the i-th final response completed.
	RespStep []int
	// LastSend / LastResp are simulated times of the last write and last completed response.
	LastSend time.Duration
	LastResp time.Duration
}

// NewClient connects a raw client to the listener.
func NewClient(k *kernel.K, l *simnet.Listener, name, fromHost string) *Client {
	c := &Client{k: k, Name: name, P: wire.NewRespParser(), LastResp: k.Now()}
	c.C = l.Connect(name, fromHost)
	if c.C == nil {
		return c
	}
	c.C.OnData(func(b []byte) {
		before := len(c.P.Final())
		c.P.Feed(b)
		for i := before; i < len(c.P.Final()); i++ {
			c.RespStep = append(c.RespStep, k.StepN)
			c.LastResp = k.Now()
		}
	}, func() {
		c.SawEOF = true
		c.EOFStep = k.StepN
		before := len(c.P.Final())
		c.P.End()
		for i := before; i < len(c.P.Final()); i++ {
			c.RespStep = append(c.RespStep, k.StepN)
			c.LastResp = k.Now()
		}
		// a client that reads end-of-file has nothing more to expect and closes its side (unless a
		// world wants it to linger: KeepOpenAfterEOF)
		if !c.KeepOpenAfterEOF && !c.closedSelf {
			c.closedAfterEOF = true
			c.C.Close()
		}
	}, func() {
		c.SawRST = true
		c.EOFStep = k.StepN
	})
	k.AddSource(c.actions)
	return c
}

// Add appends a request to the script.
func (c *Client) Add(spec *ReqSpec) *ClientItem {
	it := &ClientItem{Raw: spec.Encode(), Method: spec.Method, Pipelined: spec.Pipelined, Spec: spec}
	c.Script = append(c.Script, it)
	return it
}

// AddRaw appends arbitrary bytes to the script.
func (c *Client) AddRaw(b []byte, pipelined bool) *ClientItem {
	it := &ClientItem{Raw: b, Pipelined: pipelined}
	c.Script = append(c.Script, it)
	return it
}

// Alive reports whether the client can still send.
func (c *Client) Alive() bool { return c.C != nil && !c.SawEOF && !c.SawRST && !c.closedSelf }

// Done reports whether every scripted item was sent and answered, or the connection ended.
func (c *Client) Done() bool {
	if !c.Alive() {
		return true
	}
	return c.next >= len(c.Script) && len(c.P.Final()) >= c.expected()
}

func (c *Client) expected() int {
	n := 0
	for _, it := range c.Script[:c.next] {
		if it.Method != "" {
			n++
		}
	}
	return n
}

// Idle reports whether the client has no exchange in flight (everything sent was answered, no
// partially written request).
func (c *Client) Idle() bool {
	if !c.Alive() {
		return true
	}
	if c.next < len(c.Script) && c.Script[c.next].partSent {
		return false
	}
	return len(c.P.Final()) >= c.expected() && c.P.Cur == nil
}

// NextIndex returns the index of the next unsent item.
func (c *Client) NextIndex() int { return c.next }

func (c *Client) canSend() bool {
	if !c.Alive() || c.Hold || c.next >= len(c.Script) {
		return false
	}
	it := c.Script[c.next]
	caughtUp := len(c.P.Final()) >= c.expected()
	if it.SplitAt > 0 && it.SplitAt < len(it.Raw) {
		if !it.partSent {
			return it.Pipelined || caughtUp
		}
		return caughtUp
	}
	if it.Pipelined {
		return true
	}
	return caughtUp
}

// SendNext writes the next scripted item (or the next part of it).
func (c *Client) SendNext() {
	it := c.Script[c.next]
	if it.SplitAt > 0 && it.SplitAt < len(it.Raw) && !it.partSent {
		it.partSent = true
		if it.Method != "" {
			// (the answer may come before the rest is sent)
			c.P.Expect(it.Method)
			it.expectDone = true
		}
		c.C.Inject(it.Raw[:it.SplitAt])
		c.LastSend = c.k.Now()
		return
	}
	c.next++
	it.Sent = true
	it.SentStep = c.k.StepN
	if it.Method != "" && !it.expectDone {
		c.P.Expect(it.Method)
	}
	if it.partSent {
		c.C.Inject(it.Raw[it.SplitAt:])
	} else {
		c.C.Inject(it.Raw)
	}
	c.LastSend = c.k.Now()
	if it.CloseAfter {
		c.closedSelf = true
		c.C.Close()
	}
}

// CloseNow closes the client's end.
func (c *Client) CloseNow() {
	if c.C != nil && !c.closedSelf {
		c.closedSelf = true
		c.C.Close()
	}
}

func (c *Client) actions(add func(kernel.Action)) {
	if c.canSend() && !c.k.Draining {
		add(kernel.Action{Key: fmt.Sprintf("%s send#%d", c.Name, c.next), W: 3, Class: kernel.Actor, Do: c.SendNext})
	}
}

// State is the client's contribution to the abstract state.
func (c *Client) State() string {
	e := 0
	if c.SawEOF {
		e = 1
	}
	if c.SawRST {
		e = 2
	}
	return fmt.Sprintf("%d.%d.%d", c.next, len(c.P.Msgs), e)
}

// ---------------------------------------------------------------------------------------

// Reply is what an origin does in answer to one request.
type Reply struct {
	Raw        []byte
	CloseAfter bool // close (FIN) after the bytes
	Abort      bool // reset instead of FIN
	Silent     bool // never answer
	Spec       *RespSpec
}

// OConn is one connection accepted by a raw origin.
type OConn struct {
	O             *Origin
	Idx           int
	C             *simnet.Conn
	P             *wire.Parser
	Replied       int
	Closed        bool
	SawEOF        bool
	SawRST        bool
	Replies       []*Reply
	FirstByteStep int
	// StartSteps[i] is the step at which the first byte of the i-th request arrived.
	StartSteps []int
	// EarlyFor is the request that was answered as soon as its head had arrived (Origin.Early).
	EarlyFor     *wire.Msg
	earlyStalled bool
}

// Origin is a controller-driven raw origin server.
type Origin struct {
	k     *kernel.K
	Addr  string
	Conns []*OConn
	// Plan decides the reply to the j-th request on a connection.
	Plan func(oc *OConn, req *wire.Msg) *Reply
	// Early, when set, is asked once the head of a request has arrived and its body has not:
	// a non-nil reply is sent at once; the origin stops reading and resumes at some later step.
	Early func(oc *OConn, head *wire.Msg) *Reply
	// AcceptCap, when positive, is the socket-buffer capacity of connections accepted from now on.
	AcceptCap int
	// HoldReplies, when set, disables the reply action (C07 park point).
	HoldReplies bool
}

// NewOrigin registers a raw origin at addr.
func NewOrigin(k *kernel.K, n *simnet.Net, addr string, plan func(oc *OConn, req *wire.Msg) *Reply) *Origin {
	o := &Origin{k: k, Addr: addr, Plan: plan}
	n.Handle(addr, func(c *simnet.Conn) {
		oc := &OConn{O: o, Idx: len(o.Conns), C: c, P: wire.NewReqParser(), FirstByteStep: -1}
		o.Conns = append(o.Conns, oc)
		if o.AcceptCap > 0 {
			c.SetCap(o.AcceptCap)
		}
		c.OnData(func(b []byte) {
			if oc.FirstByteStep < 0 {
				oc.FirstByteStep = k.StepN
			}
			if oc.P.Idle() {
				oc.StartSteps = append(oc.StartSteps, k.StepN)
			}
			oc.P.Feed(b)
			if o.Early != nil && !oc.Closed && oc.EarlyFor == nil && oc.P.Cur != nil && oc.Replied == len(oc.P.Msgs) {
				if rp := o.Early(oc, oc.P.Cur); rp != nil {
					oc.EarlyFor = oc.P.Cur
					oc.earlyStalled = true
					oc.Replies = append(oc.Replies, rp)
					c.SetCap(2048)
					c.Peer().Stall(true)
					c.Inject(rp.Raw)
				}
			}
		}, func() { oc.SawEOF = true; oc.P.End() }, func() { oc.SawRST = true })
	})
	k.AddSource(o.actions)
	return o
}

func (o *Origin) actions(add func(kernel.Action)) {
	if o.HoldReplies {
		return
	}
	for _, oc := range o.Conns {
		oc := oc
		if oc.Replied < len(oc.P.Msgs) && oc.P.Msgs[oc.Replied] == oc.EarlyFor {
			oc.Replied++ // answered already
		}
		if oc.Closed || oc.SawRST || oc.Replied >= len(oc.P.Msgs) {
			continue
		}
		add(kernel.Action{Key: fmt.Sprintf("origin %s c%d reply#%d", o.Addr, oc.Idx, oc.Replied), W: 3, Class: kernel.Actor, Do: func() { oc.ReplyNext() }})
	}
}

// ResumeEarly lets every connection that stopped reading after an early answer read on; it reports
// whether there was one.
func (o *Origin) ResumeEarly() bool {
	any := false
	for _, oc := range o.Conns {
		if oc.earlyStalled {
			oc.earlyStalled = false
			oc.C.Peer().Stall(false)
			any = true
		}
	}
	return any
}

// ReplyNext answers the next unanswered request on the connection.
func (oc *OConn) ReplyNext() {
	req := oc.P.Msgs[oc.Replied]
	oc.Replied++
	rp := oc.O.Plan(oc, req)
	oc.Replies = append(oc.Replies, rp)
	if rp == nil || rp.Silent {
		return
	}
	oc.C.Inject(rp.Raw)
	if rp.Abort {
		oc.Closed = true
		oc.C.Abort()
	} else if rp.CloseAfter {
		oc.Closed = true
		oc.C.Close()
	}
}

// Requests returns all requests received by the origin over all connections, in connection order.
func (o *Origin) Requests() []*wire.Msg {
	var out []*wire.Msg
	for _, oc := range o.Conns {
		out = append(out, oc.P.Msgs...)
		if oc.P.Cur != nil {
			out = append(out, oc.P.Cur)
		}
	}
	return out
}

// State is the origin's contribution to the abstract state.
func (o *Origin) State() string {
	var sb strings.Builder
	for _, oc := range o.Conns {
		fmt.Fprintf(&sb, "%d/%d,", len(oc.P.Msgs), oc.Replied)
	}
	return sb.String()
}

// ---------------------------------------------------------------------------------------

// exchangeID extracts the id from a path of the form /x<id>/...
func exchangeID(target string) int {
	i := strings.Index(target, "/x")
	if i < 0 {
		return -1
	}
	j := i + 2
	for j < len(target) && target[j] >= '0' && target[j] <= '9' {
		j++
	}
	if j == i+2 {
		return -1
	}
	id, _ := strconv.Atoi(target[i+2 : j])
	return id
}

var hopByHop = map[string]bool{
	"connection": true, "keep-alive": true, "proxy-authenticate": true, "proxy-authorization": true,
	"proxy-connection": true, "te": true, "trailer": true, "transfer-encoding": true, "upgrade": true,
	"content-length": true,
}

// endToEnd returns the end-to-end header values of a message as sent, by lower-cased name.
func endToEnd(hs []wire.HF, connTokens []string) map[string][]string {
	skip := map[string]bool{}
	for _, t := range connTokens {
		skip[t] = true
	}
	m := map[string][]string{}
	for _, h := range hs {
		n := strings.ToLower(h.Name)
		if hopByHop[n] || skip[n] || strings.HasPrefix(n, "proxy-") {
			continue
		}
		m[n] = append(m[n], h.Value)
	}
	return m
}

// flattenValues joins header values the way a recipient may legitimately see them: a sender's
// list [a, b] may arrive as two fields or as one field "a, b" (RFC 7230 3.2.2) — martian/net/http
// keep them separate; we compare the exact per-field lists and report differences.
func sameValues(sent, got []string) bool {
	if len(sent) != len(got) {
		return false
	}
	for i := range sent {
		if sent[i] != got[i] {
			return false
		}
	}
	return true
}

func sortedKeys[V any](m map[string]V) []string {
	ks := make([]string, 0, len(m))
	for k := range m {
		ks = append(ks, k)
	}
	sort.Strings(ks)
	return ks
}

// newProxyA builds a proxy served on a simnet listener inside the bubble.
func newProxyA(k *kernel.K, n *simnet.Net) (*martian.Proxy, *simnet.Listener) {
	p := martian.NewProxy()
	p.SetDial(n.DialFunc("proxy"))
	l := n.Listen("10.0.0.1:8080")
	go p.Serve(l)
	return p, l
}
