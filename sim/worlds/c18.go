package worlds

import (
	"bytes"
	"encoding/json"
	"fmt"
	"net/http"
	"net/http/httptest"
	"regexp"
	"sort"
	"strings"
	"time"

	"verifsim/kernel"
	"verifsim/simnet"
	"verifsim/wire"

	"github.com/google/martian/v3"
	"github.com/google/martian/v3/trafficshape"
)

// C18 — traffic shaping delays or cuts a response but never alters its bytes.
// World D: a real proxy served on trafficshape.NewListener(simnet listener); shaping is
// configured through the real trafficshape.Handler; origins answer 200 or 206 with
// Content-Range; every write the proxy makes on a shaped connection is time-stamped with the
// simulated clock. Busy-wait loops of the buckets sleep 1 ms of simulated time (seam R3).

func init() {
	register(&World{
		Name: "C18", Prop: "C18", Run: runC18, MaxSteps: 20000,
		Real: []string{"trafficshape.Listener / Conn (shaped write loop, actions) / Bucket / Handler (validation, swap) / utils (action lists)", "the context-setting part of martian.Proxy.handle", "net/http.Transport"},
		Stub: append([]string{"raw scripted clients and origins", "write time-stamps on the shaped connections", "bucket busy-wait turned into a 1 ms simulated sleep (seam R3)", "reference model of offsets, closes, halts and lower bounds for throttles"}, commonStub...),
	})
}

type tsThrottle struct {
	Bytes      string `json:"bytes"`
	Bandwidth  int64  `json:"bandwidth"`
	start, end int64
}
type tsHalt struct {
	Byte     int64 `json:"byte"`
	Duration int64 `json:"duration"`
	Count    int64 `json:"count"`
}
type tsClose struct {
	Byte  int64 `json:"byte"`
	Count int64 `json:"count"`
}
type tsShape struct {
	URLRegex  string        `json:"url_regex"`
	MaxBW     int64         `json:"max_global_bandwidth,omitempty"`
	Throttles []*tsThrottle `json:"throttles,omitempty"`
	Halts     []*tsHalt     `json:"halts,omitempty"`
	Closes    []*tsClose    `json:"close_connections,omitempty"`
}
type tsConfig struct {
	Latency int64
	// DefaultBW, when > 0, is the listener-wide default bandwidth (bytes per second, both ways)
	DefaultBW int64
	Shapes  []*tsShape
	invalid string
	raw     string
}

func (c *tsConfig) JSON() string {
	if c.raw != "" {
		return c.raw
	}
	def := map[string]interface{}{"latency": c.Latency}
	if c.DefaultBW != 0 {
		def["bandwidth"] = map[string]interface{}{"up": c.DefaultBW, "down": c.DefaultBW}
	}
	m := map[string]interface{}{"trafficshape": map[string]interface{}{
		"default": def,
		"shapes":  c.Shapes,
	}}
	b, _ := json.Marshal(m)
	return string(b)
}

func (c *tsConfig) clone() *tsConfig {
	b, _ := json.Marshal(c.Shapes)
	var shapes []*tsShape
	json.Unmarshal(b, &shapes)
	for _, s := range shapes {
		for _, t := range s.Throttles {
			fmt.Sscanf(strings.Replace(t.Bytes, "-", " ", 1), "%d %d", &t.start, &t.end)
			if strings.HasSuffix(t.Bytes, "-") {
				t.end = -1
			}
		}
	}
	return &tsConfig{Latency: c.Latency, DefaultBW: c.DefaultBW, Shapes: shapes}
}

func genTSConfig(k *kernel.K, gen int) *tsConfig {
	w := k.W
	c := &tsConfig{}
	if w.Chance(1, 3) {
		c.Latency = int64([]int{10, 200, 1500}[w.Draw(3)])
	}
	if w.Chance(1, 6) {
		c.DefaultBW = int64([]int{1000, 4000}[w.Draw(2)])
	}
	paths := []string{"/alpha", "/beta", "/gamma"}
	for i, n := 0, w.Range(1, 3); i < n; i++ {
		s := &tsShape{URLRegex: fmt.Sprintf("http://origin-a\\.test%s/.*", paths[i])}
		if w.Chance(1, 4) {
			s.MaxBW = int64([]int{2000, 10000}[w.Draw(2)])
		}
		// throttles: disjoint intervals, listed unsorted sometimes
		pos := int64(w.Draw(3) * 1000)
		for j, m := 0, w.Draw(3); j < m; j++ {
			ln := int64(500 + w.Draw(4)*1000)
			t := &tsThrottle{Bandwidth: int64([]int{1000, 4000, 500}[w.Draw(3)]), start: pos, end: pos + ln}
			if j == m-1 && w.Chance(1, 3) {
				t.end = -1
				t.Bytes = fmt.Sprintf("%d-", t.start)
			} else {
				t.Bytes = fmt.Sprintf("%d-%d", t.start, t.end)
			}
			s.Throttles = append(s.Throttles, t)
			pos += ln + int64(w.Draw(2)*700)
		}
		if len(s.Throttles) == 2 && w.Chance(1, 2) {
			s.Throttles[0], s.Throttles[1] = s.Throttles[1], s.Throttles[0]
		}
		if w.Chance(1, 6) {
			// a staircase: adjoining throttles of one bandwidth, none longer than a second's worth;
			// together they throttle the whole stretch like one interval
			s.Throttles = nil
			bw := int64([]int{500, 1000}[w.Draw(2)])
			ln := bw / int64(1+w.Draw(2))
			pos := int64(w.Draw(2)) * 700
			for j, m := 0, 4+w.Draw(5); j < m; j++ {
				s.Throttles = append(s.Throttles, &tsThrottle{Bandwidth: bw, start: pos, end: pos + ln, Bytes: fmt.Sprintf("%d-%d", pos, pos+ln)})
				pos += ln
			}
		}
		for j, m := 0, w.Draw(3); j < m; j++ {
			s.Halts = append(s.Halts, &tsHalt{Byte: int64(w.Draw(8) * 700), Duration: int64([]int{100, 1500, 20000}[w.Draw(3)]), Count: int64([]int{1, 2, -1}[w.Draw(3)])})
		}
		if w.Chance(1, 2) {
			s.Closes = append(s.Closes, &tsClose{Byte: int64(w.Draw(10) * 650), Count: int64([]int{1, 1, -1}[w.Draw(3)])})
		}
		c.Shapes = append(c.Shapes, s)
	}
	return c
}

func genBadTSConfig(k *kernel.K) *tsConfig {
	w := k.W
	good := genTSConfig(k, 0)
	c := &tsConfig{Latency: good.Latency, DefaultBW: good.DefaultBW, Shapes: good.Shapes}
	s := c.Shapes[0]
	switch w.Draw(8) {
	case 7:
		c.invalid = "negative_count"
		if w.Chance(1, 2) {
			s.Halts = []*tsHalt{{Byte: 10, Duration: 10, Count: -5}}
		} else {
			s.Closes = []*tsClose{{Byte: 10, Count: -2}}
		}
	case 0:
		c.invalid = "overlapping_throttles"
		s.Throttles = []*tsThrottle{{Bytes: "0-2000", Bandwidth: 1000}, {Bytes: "1000-3000", Bandwidth: 1000}}
	case 1:
		c.invalid = "malformed_bytes"
		s.Throttles = []*tsThrottle{{Bytes: "12..40", Bandwidth: 1000}}
	case 2:
		c.invalid = "negative_bandwidth"
		s.Throttles = []*tsThrottle{{Bytes: "0-100", Bandwidth: -5}}
	case 3:
		c.invalid = "zero_count"
		s.Halts = []*tsHalt{{Byte: 10, Duration: 10, Count: 0}}
	case 4:
		c.invalid = "bad_regex"
		s.URLRegex = "http://origin-a\\.test/([a-z"
	case 5:
		c.invalid = "negative_latency"
		c.Latency = -3
	case 6:
		c.invalid = "malformed_json"
		c.raw = `{"trafficshape": {"shapes": [`
	}
	return c
}

type tsEx struct {
	id         int
	path       string
	rangeStart int64
	total      int // size of the full resource
	body       []byte
	spec       *ReqSpec
	resp       *RespSpec
	connGen    int // configuration generation in force when its connection was accepted
	tunnel     bool // fetched through a blind tunnel: the origin closes after the response
}

type writeStamp struct {
	cum int64
	at  time.Duration
}

func runC18(k *kernel.K) {
	w := k.W
	k.FastAdvance = true
	n := simnet.New(k)
	n.DefaultAuto = true // bytes arrive as they are written; time is what this world is about
	n.LogSystemOps = false
	base := n.Listen("10.0.0.1:8080")
	tsl := trafficshape.NewListener(base)
	handler := trafficshape.NewHandler(tsl)
	proxy := martian.NewProxy()
	proxy.SetDial(n.DialFunc("proxy"))
	go proxy.Serve(tsl)
	k.Settle()
	baseline := kernel.CensusSummary(k.Census(), "trafficshape.")
	shapeBuckets := 0 // one global bucket per shape of every configuration the handler parsed

	exs := map[int]*tsEx{}
	origin := NewOrigin(k, n, "origin-a.test:80", nil)
	origin.Plan = func(oc *OConn, req *wire.Msg) *Reply {
		e := exs[exchangeID(req.Target)]
		if e == nil {
			return &Reply{Raw: []byte("HTTP/1.1 500 Unplanned\r\nContent-Length: 0\r\n\r\n")}
		}
		return &Reply{Raw: e.resp.Encode(req.Method), CloseAfter: e.tunnel}
	}

	// Configuration history: accepted and rejected configurations, each followed by connections.
	var active *tsConfig // model of the shape set in force (deep copy with its own counts)
	gen := 0
	configure := func(c *tsConfig) int {
		req := httptest.NewRequest("POST", "http://martian.proxy/shape-traffic", strings.NewReader(c.JSON()))
		rec := httptest.NewRecorder()
		handler.ServeHTTP(rec, req)
		return rec.Code
	}
	nextID := 1
	nconf := w.Range(1, 3)
	type round struct {
		conf   *tsConfig
		status int
	}
	_ = gen
	type carried struct {
		cl      *Client
		model   *tsConfig
		latency time.Duration
		stamps  *[]writeStamp
	}
	var carry *carried
	var staleNew *tsConfig // when set, the exchange runs on a connection older than this accepted configuration
	midConfigured := false // the current connection saw a configuration accepted in the middle of a response
	runExchange := func(cl *Client, connModel *tsConfig, connLatency time.Duration, first bool, stamps *[]writeStamp, j int) {
		e := &tsEx{id: nextID}
		nextID++
		e.path = []string{"/alpha", "/beta", "/gamma", "/unshaped"}[w.Pick([]int{3, 2, 1, 2})]
		e.total = []int{0, 300, 2500, 6000, 9000}[w.Pick([]int{1, 2, 3, 3, 2})]
		full := bodyBytes(e.id, 'r', e.total)
		e.spec = &ReqSpec{ID: e.id, Method: "GET", Abs: true, Host: "origin-a.test", Path: fmt.Sprintf("%s/x%d", e.path, e.id)}
		if e.total > 0 && w.Chance(1, 3) {
			e.rangeStart = int64(w.Draw(e.total))
			e.spec.Header = []wire.HF{{Name: "Range", Value: fmt.Sprintf("bytes=%d-", e.rangeStart)}}
			e.body = full[e.rangeStart:]
			e.resp = &RespSpec{Status: 206, Framing: "cl", Body: e.body, Header: []wire.HF{{Name: "Content-Range", Value: fmt.Sprintf("bytes %d-%d/%d", e.rangeStart, e.total-1, e.total)}}}
			if w.Chance(1, 4) {
				// the origin does not know (or tell) the complete length: "bytes a-b/*"
				e.resp.Header[0].Value = fmt.Sprintf("bytes %d-%d/*", e.rangeStart, e.total-1)
				k.Probe("content_range_unknown_complete_length")
			}
		} else {
			e.body = full
			e.resp = &RespSpec{Status: 200, Framing: "cl", Body: e.body}
		}
		if e.total > 0 && w.Chance(1, 8) {
			// the origin frames the body in chunks; the proxy relays it chunked
			e.resp.Framing = "chunked"
			e.resp.Chunks = []int{[]int{100, 700, 4096}[w.Draw(3)]}
			k.Probe("chunked_response")
		}
		if w.Chance(1, 6) {
			// a response head larger than the proxy's 4 KiB write buffer reaches the shaped
			// connection in more than one Write
			e.resp.Header = append(e.resp.Header, wire.HF{Name: "X-Large", Value: strings.Repeat("h", 4500+w.Draw(3000))})
			k.Probe("response_head_spans_writes")
		}
		if w.Chance(1, 8) {
			// the client asks to close after this exchange (the origin does not repeat it): the
			// proxy adds "Connection: close" to the head it writes - bytes of the head, not of the body
			e.spec.Close = true
			k.Probe("client_asks_to_close")
		}
		exs[e.id] = e
		cl.Add(e.spec)
		before := len(*stamps)
		t0 := k.Now()
		advances := 0
		// Sometimes a new configuration is accepted while this response is in flight: from then on
		// the connection is one that was accepted before the configuration in force.
		midAt := -1
		if staleNew == nil && connModel != nil && w.Chance(1, 6) {
			midAt = 1 + w.Draw(40)
		}
		for guard := 0; guard < 4000; guard++ {
			k.Settle()
			if cl.Done() {
				break
			}
			if k.Step() {
				continue
			}
			if advances == midAt {
				nc := genTSConfig(k, 7)
				if st := configure(nc); st == 200 {
					shapeBuckets += len(nc.Shapes)
					active = nc.clone()
					staleNew = active
					midConfigured = true
					k.Probe("config_accepted_mid_response")
					k.Note("mid-response config -> %d: %s", st, clipStr(nc.JSON(), 600))
				} else {
					k.Fail("C18.reject_unchanged", map[string]string{"kind": "valid_rejected"}, "valid shaping configuration (posted while a response was in flight) was answered with status %d: %s", st, clipStr(nc.JSON(), 300))
				}
			}
			step := time.Millisecond
			switch {
			case advances > 400:
				step = 500 * time.Millisecond
			case advances > 150:
				step = 50 * time.Millisecond
			case advances > 50:
				step = 5 * time.Millisecond
			}
			advances++
			if !k.Advance(step) {
				k.Inconclusive = "clock_blocked_by_mutex"
				break
			}
			if k.Now()-t0 > 3*time.Minute {
				break
			}
		}
		k.Settle()
		if staleNew != nil {
			c18CheckStale(k, e, cl, connModel, staleNew, connLatency, (*stamps)[before:], t0, j)
			return
		}
		c18Check(k, e, cl, connModel, connLatency, first, (*stamps)[before:], t0, j)
	}
	for ci := 0; ci < nconf && k.Inconclusive == ""; ci++ {
		var c *tsConfig
		if ci > 0 && w.Chance(1, 3) {
			c = genBadTSConfig(k)
		} else {
			c = genTSConfig(k, ci)
		}
		// a real clock always moves between two events
		k.Advance(time.Duration(1+w.Draw(5)) * time.Millisecond)
		st := configure(c)
		shapeBuckets += len(c.Shapes)
		k.Note("config %d (%s) -> %d: %s", ci, map[bool]string{true: "valid", false: c.invalid}[c.invalid == ""], st, clipStr(c.JSON(), 1500))
		if c.invalid != "" {
			k.Probe("rejected_" + c.invalid)
			if st != 400 {
				k.Fail("C18.reject_unchanged", map[string]string{"kind": c.invalid}, "invalid shaping configuration (%s) was answered with status %d, want 400: %s", c.invalid, st, clipStr(c.JSON(), 300))
			}
		} else {
			if st != 200 {
				k.Fail("C18.reject_unchanged", map[string]string{"kind": "valid_rejected"}, "valid shaping configuration was answered with status %d: %s", st, clipStr(c.JSON(), 300))
				break
			}
			active = c.clone()
			gen++
		}
		k.Advance(time.Duration(1+w.Draw(5)) * time.Millisecond)
		// A connection accepted under the previous configuration and still open: after a REJECTED
		// configuration it must behave exactly as before.
		if carry != nil && carry.cl.Alive() && c.invalid != "" {
			k.Probe("open_connection_across_rejected_config")
			runExchange(carry.cl, carry.model, carry.latency, false, carry.stamps, len(carry.cl.Script))
		} else if carry != nil && carry.cl.Alive() && c.invalid == "" && st == 200 {
			// A connection accepted before an ACCEPTED configuration: the new shape set must not
			// apply to it.
			k.Probe("open_connection_across_accepted_config")
			staleNew = active
			runExchange(carry.cl, carry.model, carry.latency, false, carry.stamps, len(carry.cl.Script))
			staleNew = nil
		}
		if carry != nil {
			carry.cl.CloseNow()
			k.Settle()
			for k.Step() {
			}
			k.Settle()
			carry = nil
		}
		// connections accepted under this configuration, used one after the other
		for conn, nc := 0, w.Range(1, 2); conn < nc && k.Inconclusive == ""; conn++ {
			cl := NewClient(k, base, fmt.Sprintf("g%dc%d", ci, conn), "10.1.0.2")
			if cl.C == nil {
				break
			}
			srv := cl.C.Peer()
			stamps := &[]writeStamp{}
			srv.OnWrite = func(cum int64) { *stamps = append(*stamps, writeStamp{cum, k.Now()}) }
			connLatency := time.Duration(0)
			if active != nil {
				connLatency = time.Duration(active.Latency) * time.Millisecond
			}
			connModel := active // the shape set this connection was accepted under
			nreq := w.Range(1, 3)
			midConfigured = false
			for j := 0; j < nreq && k.Inconclusive == "" && cl.Alive(); j++ {
				runExchange(cl, connModel, connLatency, j == 0, stamps, j)
				if cl.SawEOF || cl.SawRST {
					break
				}
			}
			wasMid := midConfigured
			if midConfigured {
				staleNew, midConfigured = nil, false
			}
			if cl.Alive() && !wasMid && w.Chance(1, 4) {
				// The client goes on with a CONNECT on the same connection and fetches a resource
				// through the blind tunnel: these bytes are no response that matches a shape, whatever
				// the previous response on the connection was.
				k.Probe("tunnel_after_exchanges")
				id := nextID
				nextID++
				e := &tsEx{id: id, tunnel: true, total: []int{2500, 6000, 9000}[w.Draw(3)]}
				e.body = bodyBytes(e.id, 'r', e.total)
				e.resp = &RespSpec{Status: 200, Framing: "cl", Body: e.body}
				e.spec = &ReqSpec{ID: id, Method: "GET", Host: "origin-a.test", Path: fmt.Sprintf("/alpha/x%d", id)}
				exs[id] = e
				waitFor := func(done func() bool) {
					for guard := 0; guard < 3000; guard++ {
						k.Settle()
						if done() || !cl.Alive() {
							return
						}
						if k.Step() {
							continue
						}
						k.Advance(50 * time.Millisecond)
					}
				}
				nfin := len(cl.P.Final())
				cl.Add(&ReqSpec{ID: id, Method: "CONNECT", Host: "origin-a.test:80", Path: "origin-a.test:80"})
				waitFor(cl.Done)
				if fin := cl.P.Final(); len(fin) == nfin+1 && fin[nfin].Status == 200 && cl.Alive() {
					// what follows the CONNECT response is the tunnel's byte stream: parse it afresh
					tp := wire.NewRespParser()
					tp.Expect("GET")
					cl.P = tp
					t0 := k.Now()
					cl.C.Inject(e.spec.Encode())
					waitFor(func() bool { return len(tp.Final()) >= 1 })
					k.Settle()
					fin = tp.Final()
					desc := fmt.Sprintf("exchange #%d (GET %s, %dB) through a blind CONNECT tunnel opened on a connection that had carried %d exchanges before", id, e.spec.Path, e.total, nreq)
					if len(fin) != 1 || firstDiff(fin[0].Body, e.body) >= 0 {
						got := -1
						if len(fin) == 1 {
							got = len(fin[0].Body)
						} else if tp.Cur != nil {
							got = len(tp.Cur.Body)
						}
						k.Fail("C18.bytes_exact", map[string]string{"shaped": "false", "mode": "tunnel"}, "%s: tunnelled bytes match no shape, yet the client did not receive the response intact (%d of %d body bytes, eof=%v)", desc, got, len(e.body), cl.SawEOF)
					} else if el := k.Now() - t0; el > 2*connLatency+2*time.Millisecond && (connModel == nil || connModel.DefaultBW == 0) {
						k.Fail("C18.unmatched_undelayed", map[string]string{"mode": "tunnel"}, "%s: tunnelled bytes match no shape, yet the exchange took %v of simulated time (latency %v)", desc, el, connLatency)
					}
				}
				cl.CloseNow()
			}
			if conn == nc-1 && cl.Alive() && ci < nconf-1 && !wasMid {
				// keep the last connection of this round open across the next configuration
				carry = &carried{cl, connModel, connLatency, stamps}
				continue
			}
			cl.CloseNow()
			k.Settle()
			for k.Step() {
			}
			k.Settle()
		}
	}
	if carry != nil {
		carry.cl.CloseNow()
		k.Settle()
		for k.Step() {
		}
		k.Settle()
	}
	// Resources: once every shaped connection is closed (and time has passed), the goroutines the
	// listener started for them are gone.
	k.Advance(3 * time.Second)
	k.Settle()
	left := kernel.CensusSummary(k.Census(), "trafficshape.")
	var extra []string
	for f, c := range left {
		if c > baseline[f] {
			// buckets of accepted shape sets (one per shape) live as long as the configuration
			extra = append(extra, fmt.Sprintf("%s x%d (baseline %d)", f, c, baseline[f]))
		}
	}
	sort.Strings(extra)
	if len(extra) > 0 {
		// per shape of every accepted configuration one global bucket may legitimately remain
		k.Note("goroutines at end: %v", extra)
		perConn := 0
		for f, c := range left {
			if strings.Contains(f, "(*Bucket).loop") {
				perConn = c - baseline[f]
			}
		}
		// every parsed configuration creates one bucket per shape (shape.WriteBucket); those live
		// with the configuration, not with a connection
		globalAllowance := shapeBuckets
		if perConn > globalAllowance {
			k.Fail("C18.resources_released", map[string]string{"top_frame": "trafficshape.(*Bucket).loop"}, "all shaped connections are closed, yet %d bucket drain goroutines remain beyond the %d the accepted configurations can account for: %v", perConn, globalAllowance, extra)
		}
	}
	n.Shutdown()
	k.Settle()
}

// c18Check compares one exchange on a shaped connection with the model.
func c18Check(k *kernel.K, e *tsEx, cl *Client, model *tsConfig, latency time.Duration, first bool, stamps []writeStamp, t0 time.Duration, idx int) {
	desc := fmt.Sprintf("exchange #%d (GET %s, resource %dB, range start %d, body %dB)", e.id, e.spec.Target(), e.total, e.rangeStart, len(e.body))
	// which shape applies
	var shape *tsShape
	url := e.spec.Target()
	if model != nil {
		for _, s := range model.Shapes {
			if ok, _ := regexp.MatchString(s.URLRegex, url); ok {
				shape = s
				break
			}
		}
	}
	fin := cl.P.Final()
	var got *wire.Msg
	complete := false
	if idx >= 0 && idx < len(fin) {
		got, complete = fin[idx], true
	} else if cl.P.Cur != nil {
		got = cl.P.Cur
	}
	elapsed := k.Now() - t0
	if shape == nil {
		k.Probe("unshaped_exchange")
		if !complete || firstDiff(got.Body, e.body) >= 0 {
			k.Fail("C18.bytes_exact", map[string]string{"shaped": "false"}, "%s matches no shape but the client did not receive the response intact (complete=%v)", desc, complete)
			return
		}
		want := time.Duration(0)
		if first {
			want = latency
		}
		if model != nil && model.DefaultBW > 0 {
			// the default bandwidth of the configuration the connection was accepted under applies
			k.Probe("default_bandwidth")
			nbytes := int64(got.HeadLen + len(got.Body))
			// (the first buffer goes through Conn.Write and the listener's write bucket, the rest
			// through Conn.ReadFrom and its read bucket: each grants one bucket at once, and the
			// drain ticks may fall right after the start of either part: up to four buckets for free)
			if secs := (nbytes+model.DefaultBW-1)/model.DefaultBW - 4; secs > 0 && elapsed < time.Duration(secs)*time.Second-time.Millisecond {
				k.Fail("C18.default_bandwidth_delay", nil, "%s matches no shape; the default bandwidth is %d B/s, yet %d bytes were delivered in %v, the token bucket needs at least %d s; cumulative writes %v", desc, model.DefaultBW, nbytes, elapsed, secs, func() []string {
					var ws []string
					for _, st := range stamps {
						ws = append(ws, fmt.Sprintf("%d@%v", st.cum, st.at))
					}
					return ws
				}())
			}
			return
		}
		// reads and writes each simulate the latency once per connection
		if elapsed > 2*want+2*time.Millisecond {
			k.Fail("C18.unmatched_undelayed", nil, "%s matches no shape (latency %v, first exchange on its connection: %v) but took %v of simulated time", desc, latency, first, elapsed)
		}
		return
	}
	k.Probe("shaped_exchange")
	// Walk the shape's actions the way they are ordered (by byte; halts before closes at the same
	// byte): an action fires when its byte lies inside [range start, end of body], its count is
	// not exhausted and body bytes are written at all; a close ends the walk.
	closeAt, firedHalts := c18Walk(shape, e, true)
	if got == nil || !got.HeadDone {
		k.Fail("C18.bytes_exact", map[string]string{"shaped": "true"}, "%s: no response head reached the client", desc)
		return
	}
	if closeAt >= 0 {
		k.Probe("close_action")
		wantBody := e.body[:closeAt-e.rangeStart]
		if !bytes.Equal(got.Body, wantBody) {
			var ws []string
			for _, s := range stamps {
				ws = append(ws, fmt.Sprintf("%d@%v", s.cum, s.at))
			}
			k.Fail("C18.close_offset", map[string]string{"range_start": fmt.Sprint(e.rangeStart > 0), "framing": e.resp.Framing}, "%s: close action at absolute byte %d: client received %d body bytes, want exactly %d (then close); head %d bytes; cumulative writes on the connection %v; client parser consumed %d bytes in total, responses %s", desc, closeAt, len(got.Body), len(wantBody), got.HeadLen, ws, cl.P.Total, func() string {
				var out []string
				for _, m := range append(append([]*wire.Msg(nil), cl.P.Msgs...), got) {
					out = append(out, fmt.Sprintf("[%d head=%d cl=%d body=%d %v]", m.Status, m.HeadLen, m.DeclaredCL, len(m.Body), m.Header))
				}
				return strings.Join(out, " ")
			}())
		}
		if !cl.SawEOF && !cl.SawRST {
			k.Fail("C18.close_offset", map[string]string{"range_start": fmt.Sprint(e.rangeStart > 0)}, "%s: close action at absolute byte %d did not close the connection", desc, closeAt)
		}
	} else {
		if !complete || firstDiff(got.Body, e.body) >= 0 {
			d := -1
			if got != nil {
				d = firstDiff(got.Body, e.body)
			}
			k.Fail("C18.bytes_exact", map[string]string{"shaped": "true"}, "%s: no close action applies, yet the client did not receive the response intact (complete=%v, %d of %d body bytes, first difference at %d, eof=%v)", desc, complete, len(got.Body), len(e.body), d, cl.SawEOF)
			return
		}
	}
	if e.resp.Framing == "chunked" {
		// The shaped connection counts the bytes it writes after the head, chunk-size lines
		// included, so for a chunked response its offsets are not body offsets (known finding
		// C18-chunk-framing-counted-in-offsets, reported through close_offset above); where a halt or
		// a throttle boundary falls in the body is therefore not judged here.
		return
	}
	// halts: between the byte before the halt offset and the byte at it, at least the duration passes
	headLen := int64(got.HeadLen)
	delivered := int64(len(got.Body))
	for _, h := range firedHalts {
		if h.Byte-e.rangeStart >= delivered {
			continue // fired at the very end (or where the response was cut): nothing follows it
		}
		k.Probe("halt_action")
		wireOff := stamps[0].cum - stamps[0].cum // normalise below
		_ = wireOff
		baseCum := int64(0)
		if len(stamps) > 0 {
			baseCum = stampsBase(stamps, headLen, delivered)
		}
		rel := h.Byte - e.rangeStart // body offset of the first byte after the halt
		var before, after time.Duration = -1, -1
		for _, s := range stamps {
			bodyCum := s.cum - baseCum - headLen
			if bodyCum <= rel {
				before = s.at
			}
			if bodyCum > rel && after < 0 {
				after = s.at
			}
		}
		if before >= 0 && after >= 0 && after-before < time.Duration(h.Duration)*time.Millisecond {
			var near []string
			for _, s := range stamps {
				bc := s.cum - baseCum - headLen
				if bc > rel-1200 && bc < rel+1200 {
					near = append(near, fmt.Sprintf("%d@%v", bc, s.at))
				}
			}
			k.Fail("C18.halt_delay", nil, "%s: halt of %d ms at absolute byte %d: only %v of simulated time passed between the bytes around it (body offsets written near it: %v)", desc, h.Duration, h.Byte, after-before, near)
		}
	}
	// throttles: a conservative lower bound from the token bucket (capacity per second)
	// (adjoining throttles of one bandwidth count as one interval)
	ths := append([]*tsThrottle(nil), shape.Throttles...)
	sort.SliceStable(ths, func(a, b int) bool { return ths[a].start < ths[b].start })
	var merged []*tsThrottle
	for _, t := range ths {
		if m := len(merged); m > 0 && merged[m-1].end == t.start && merged[m-1].Bandwidth == t.Bandwidth {
			k.Probe("adjoining_throttles_one_bandwidth")
			merged[m-1] = &tsThrottle{Bandwidth: t.Bandwidth, start: merged[m-1].start, end: t.end, Bytes: fmt.Sprintf("%d-%d (adjoining intervals)", merged[m-1].start, t.end)}
			continue
		}
		merged = append(merged, t)
	}
	for _, t := range merged {
		lo, hi := t.start, t.end
		if hi < 0 || hi > e.rangeStart+delivered {
			hi = e.rangeStart + delivered
		}
		if lo < e.rangeStart {
			lo = e.rangeStart
		}
		nbytes := hi - lo
		if nbytes <= 0 {
			continue
		}
		k.Probe("throttled_bytes")
		secs := (nbytes+t.Bandwidth-1)/t.Bandwidth - 2
		if secs > 0 && elapsed < time.Duration(secs)*time.Second-time.Millisecond {
			k.Fail("C18.throttle_delay", nil, "%s: %d bytes inside the throttle %s at %d B/s were delivered in %v, the token bucket needs at least %d s", desc, nbytes, t.Bytes, t.Bandwidth, elapsed, secs)
		}
	}
}

// c18Walk walks a shape's actions over one exchange the way they are ordered (by byte; halts
// before closes at the same byte) and returns the absolute byte of the close that ends the
// response (-1: none, -2: exactly at the end of the body) and the halts that fire before it. With
// consume set the counts of the model are decremented, as the real actions' counts are.
func c18Walk(shape *tsShape, e *tsEx, consume bool) (int64, []*tsHalt) {
	type act struct {
		byte int64
		halt *tsHalt
		cls  *tsClose
	}
	var acts []act
	for _, h := range shape.Halts {
		acts = append(acts, act{byte: h.Byte, halt: h})
	}
	for _, c := range shape.Closes {
		acts = append(acts, act{byte: c.Byte, cls: c})
	}
	sort.SliceStable(acts, func(a, b int) bool { return acts[a].byte < acts[b].byte })
	closeAt := int64(-1)
	end := e.rangeStart + int64(len(e.body))
	var firedHalts []*tsHalt
	if len(e.body) > 0 {
		for _, a := range acts {
			if a.byte < e.rangeStart || a.byte > end {
				continue
			}
			if a.halt != nil {
				if a.halt.Count == 0 {
					continue
				}
				if a.halt.Count > 0 && consume {
					a.halt.Count--
				}
				firedHalts = append(firedHalts, a.halt)
				continue
			}
			if a.cls.Count == 0 {
				continue
			}
			if a.cls.Count > 0 && consume {
				a.cls.Count--
			}
			closeAt = a.byte
			break
		}
	}
	if closeAt == end && closeAt >= 0 {
		// a close exactly at the end of the body: the response is complete either way
		closeAt = -2
	}
	return closeAt, firedHalts
}

func c18ShapeFor(model *tsConfig, url string) *tsShape {
	if model == nil {
		return nil
	}
	for _, s := range model.Shapes {
		if ok, _ := regexp.MatchString(s.URLRegex, url); ok {
			return s
		}
	}
	return nil
}

// c18CheckStale judges an exchange on a connection that was accepted before the configuration
// newModel was accepted: "an accepted configuration applies only to connections accepted
// afterwards". What still applies to such a connection is not stated (the shaping it was accepted
// under, or none), so both are allowed; what newModel alone would do is not.
func c18CheckStale(k *kernel.K, e *tsEx, cl *Client, oldModel, newModel *tsConfig, latency time.Duration, stamps []writeStamp, t0 time.Duration, idx int) {
	desc := fmt.Sprintf("exchange #%d (GET %s, resource %dB, range start %d, body %dB) on a connection accepted BEFORE the current configuration was accepted", e.id, e.spec.Target(), e.total, e.rangeStart, len(e.body))
	url := e.spec.Target()
	oldShape, newShape := c18ShapeFor(oldModel, url), c18ShapeFor(newModel, url)
	fin := cl.P.Final()
	var got *wire.Msg
	complete := false
	if idx >= 0 && idx < len(fin) {
		got, complete = fin[idx], true
	} else if cl.P.Cur != nil {
		got = cl.P.Cur
	}
	elapsed := k.Now() - t0
	oldClose, newClose := int64(-1), int64(-1)
	var newHalts []*tsHalt
	if oldShape != nil {
		oldClose, _ = c18Walk(oldShape, e, false)
	}
	if newShape != nil {
		newClose, newHalts = c18Walk(newShape, e, false)
	}
	intact := complete && got != nil && firstDiff(got.Body, e.body) < 0
	if !intact {
		n := -1
		if got != nil {
			n = len(got.Body)
		}
		if oldClose >= 0 && got != nil && got.HeadDone && int64(n) == oldClose-e.rangeStart && bytes.Equal(got.Body, e.body[:n]) {
			return // the shaping the connection was accepted under still applies: allowed
		}
		if e.resp.Framing == "chunked" && oldClose >= 0 && got != nil && got.HeadDone && int64(n) < oldClose-e.rangeStart && bytes.Equal(got.Body, e.body[:n]) {
			return // the old close, at a wire offset (see the known finding about chunk framing)
		}
		how := "matches neither the old nor the new shape set"
		if newClose >= 0 && int64(n) == newClose-e.rangeStart {
			how = fmt.Sprintf("exactly what the NEW configuration's close action at byte %d does", newClose)
		}
		k.Fail("C18.accept_only_new_conns", map[string]string{"effect": "cut"}, "%s: the client received %d of %d body bytes (complete=%v, eof=%v): %s; the old shape set would close at %d (-1: no close)", desc, n, len(e.body), complete, cl.SawEOF, how, oldClose)
		return
	}
	oldBW := int64(0)
	if oldModel != nil {
		oldBW = oldModel.DefaultBW
	}
	if oldShape == nil && oldBW == 0 && newModel != nil && newModel.DefaultBW > 0 {
		// neither a shape nor a default bandwidth of the old configuration concerns this exchange:
		// the new default bandwidth must not slow it down
		k.Probe("old_connection_new_default_bandwidth")
		if elapsed >= 900*time.Millisecond && elapsed > 2*latency+2*time.Millisecond {
			k.Fail("C18.accept_only_new_conns", map[string]string{"effect": "delay", "cause": "default_bandwidth"}, "%s: took %v of simulated time for %d body bytes; the configuration the connection was accepted under has no default bandwidth and no shape for this URL, the NEW one has a default bandwidth of %d B/s", desc, elapsed, len(e.body), newModel.DefaultBW)
		}
		return
	}
	if oldShape == nil && oldBW == 0 && newShape != nil {
		// nothing of the old set concerns this URL: the response must not be delayed by the new one
		minHalt := time.Duration(0)
		for _, h := range newHalts {
			if h.Byte-e.rangeStart < int64(len(e.body)) {
				d := time.Duration(h.Duration) * time.Millisecond
				if minHalt == 0 || d < minHalt {
					minHalt = d
				}
			}
		}
		if minHalt > 0 && elapsed >= minHalt && elapsed > 2*latency+2*time.Millisecond {
			k.Fail("C18.accept_only_new_conns", map[string]string{"effect": "delay"}, "%s: took %v of simulated time; the old shape set has no shape for this URL, the NEW one halts for %v", desc, elapsed, minHalt)
		}
	}
}

// stampsBase returns the cumulative write count at which this response's head started.
func stampsBase(stamps []writeStamp, headLen, body int64) int64 {
	last := stamps[len(stamps)-1].cum
	return last - headLen - body
}

func exchangeOf(m *wire.Msg, e *tsEx) bool {
	if m.Status != e.resp.Status {
		return false
	}
	return true
}

var _ = http.StatusOK
