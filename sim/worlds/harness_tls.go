package worlds

import (
	"bytes"
	"crypto/ecdsa"
	"crypto/elliptic"
	"crypto/rand"
	"crypto/tls"
	"crypto/x509"
	"crypto/x509/pkix"
	"fmt"
	"io"
	"math/big"
	"net"
	"sync"
	"time"

	"verifsim/kernel"
	"verifsim/simnet"
	"verifsim/wire"

	"github.com/google/martian/v3/mitm"
)

// tlsEnv is the harness PKI of one run: a CA that signs the origins' certificates and (for the
// MITM worlds) is also the CA martian forges leaves under. Created inside the bubble, so all
// validity windows are in simulated time and all keys are a function of the run seed.
type tlsEnv struct {
	caCert *x509.Certificate
	caKey  *ecdsa.PrivateKey
	pool   *x509.CertPool
	serial int64
}

func newTLSEnv() *tlsEnv {
	key, err := ecdsa.GenerateKey(elliptic.P256(), rand.Reader)
	if err != nil {
		panic(err)
	}
	tmpl := &x509.Certificate{
		SerialNumber:          big.NewInt(1),
		Subject:               pkix.Name{CommonName: "harness CA", Organization: []string{"Harness CA Org"}},
		NotBefore:             time.Now().Add(-24 * time.Hour * 365),
		NotAfter:              time.Now().Add(24 * time.Hour * 3650),
		KeyUsage:              x509.KeyUsageCertSign | x509.KeyUsageDigitalSignature,
		BasicConstraintsValid: true,
		IsCA:                  true,
	}
	raw, err := x509.CreateCertificate(rand.Reader, tmpl, tmpl, key.Public(), key)
	if err != nil {
		panic(err)
	}
	cert, _ := x509.ParseCertificate(raw)
	pool := x509.NewCertPool()
	pool.AddCert(cert)
	return &tlsEnv{caCert: cert, caKey: key, pool: pool, serial: 100}
}

// leaf issues a server certificate for the given DNS names / IP literals.
func (e *tlsEnv) leaf(names ...string) tls.Certificate {
	key, err := ecdsa.GenerateKey(elliptic.P256(), rand.Reader)
	if err != nil {
		panic(err)
	}
	e.serial++
	tmpl := &x509.Certificate{
		SerialNumber: big.NewInt(e.serial),
		Subject:      pkix.Name{CommonName: names[0]},
		NotBefore:    time.Now().Add(-time.Hour),
		NotAfter:     time.Now().Add(24 * time.Hour * 365),
		KeyUsage:     x509.KeyUsageDigitalSignature,
		ExtKeyUsage:  []x509.ExtKeyUsage{x509.ExtKeyUsageServerAuth},
	}
	for _, n := range names {
		if ip := net.ParseIP(n); ip != nil {
			tmpl.IPAddresses = append(tmpl.IPAddresses, ip)
		} else {
			tmpl.DNSNames = append(tmpl.DNSNames, n)
		}
	}
	raw, err := x509.CreateCertificate(rand.Reader, tmpl, e.caCert, key.Public(), e.caKey)
	if err != nil {
		panic(err)
	}
	return tls.Certificate{Certificate: [][]byte{raw, e.caCert.Raw}, PrivateKey: key}
}

// mitmConfig builds a fresh martian MITM config under the harness CA.
func (e *tlsEnv) mitmConfig() *mitm.Config {
	mc, err := mitm.NewConfig(e.caCert, e.caKey)
	if err != nil {
		panic(err)
	}
	return mc
}

// ---------------------------------------------------------------------------------------

// TLSOrigin is a goroutine-driven TLS origin server on a simnet listener.
type TLSOrigin struct {
	k    *kernel.K
	Addr string
	L    *simnet.Listener
	cfg  *tls.Config
	Plan func(req *wire.Msg) []byte

	mu         sync.Mutex
	Handshakes int
	HSErrors   []string
	SNIs       []string
	Reqs       []*wire.Msg
	PlainBytes int // bytes received that were not a TLS handshake (first byte != 22)
}

// NewTLSOrigin starts a TLS origin at addr with a certificate for names.
func NewTLSOrigin(k *kernel.K, n *simnet.Net, env *tlsEnv, addr string, names []string, plan func(req *wire.Msg) []byte) *TLSOrigin {
	o := &TLSOrigin{k: k, Addr: addr, Plan: plan}
	cert := env.leaf(names...)
	o.cfg = &tls.Config{
		Certificates: []tls.Certificate{cert},
		GetConfigForClient: func(chi *tls.ClientHelloInfo) (*tls.Config, error) {
			o.mu.Lock()
			o.SNIs = append(o.SNIs, chi.ServerName)
			o.mu.Unlock()
			return nil, nil
		},
	}
	o.L = n.Listen(addr)
	go o.serve()
	return o
}

func (o *TLSOrigin) serve() {
	for {
		c, err := o.L.Accept()
		if err != nil {
			return
		}
		go o.handle(c)
	}
}

func (o *TLSOrigin) handle(c net.Conn) {
	defer c.Close()
	tc := tls.Server(c, o.cfg)
	if err := tc.Handshake(); err != nil {
		o.mu.Lock()
		o.HSErrors = append(o.HSErrors, err.Error())
		o.mu.Unlock()
		return
	}
	o.mu.Lock()
	o.Handshakes++
	o.mu.Unlock()
	p := wire.NewReqParser()
	buf := make([]byte, 16384)
	done := 0
	for {
		nr, err := tc.Read(buf)
		if nr > 0 {
			p.Feed(buf[:nr])
			for done < len(p.Msgs) {
				m := p.Msgs[done]
				done++
				o.mu.Lock()
				o.Reqs = append(o.Reqs, m)
				o.mu.Unlock()
				if _, werr := tc.Write(o.Plan(m)); werr != nil {
					return
				}
			}
		}
		if err != nil {
			return
		}
	}
}

// Requests returns a copy of the requests received so far.
func (o *TLSOrigin) Requests() []*wire.Msg {
	o.mu.Lock()
	defer o.mu.Unlock()
	return append([]*wire.Msg(nil), o.Reqs...)
}

// ---------------------------------------------------------------------------------------

// TLSClient is a proxy client that issues a plaintext CONNECT (controller-driven), then runs a
// real crypto/tls client over the same simulated connection on actor goroutines.
type TLSClient struct {
	k    *kernel.K
	Name string
	C    *simnet.Conn
	// plaintext phase
	PlainP *wire.Parser
	// TLS phase
	cfg         *tls.Config
	tc          *tls.Conn
	cmds        chan func()
	mu          sync.Mutex
	P           *wire.Parser // responses read inside TLS (or plaintext when NoTLS)
	HSDone      bool
	HSErr       error
	State       tls.ConnectionState
	EOF         bool
	RdErr       error
	NoTLS       bool // speak plain HTTP inside the tunnel
	closed      bool
	started     bool
	connects    int
	outerFailed bool
	// OuterCfg, when set, makes Start treat the tunnel opened with SendConnect as an outer one (see Start).
	OuterCfg     *tls.Config
	InnerConnect string
}

// NewTLSClient connects to the proxy listener.
func NewTLSClient(k *kernel.K, l *simnet.Listener, name, from string, cfg *tls.Config) *TLSClient {
	c := &TLSClient{k: k, Name: name, cfg: cfg, PlainP: wire.NewRespParser(), P: wire.NewRespParser(), cmds: make(chan func(), 64)}
	c.C = l.Connect(name, from)
	return c
}

// SendConnect writes the CONNECT request in plaintext; the response is parsed by PlainP.
func (c *TLSClient) SendConnect(authority string, extra string) {
	if c.connects > 0 {
		// a CONNECT inside the tunnel just opened: its answer is parsed afresh (the parser of the
		// previous answer is in tunnel mode)
		c.outerFailed = c.outerFailed || !c.Connected()
		c.PlainP = wire.NewRespParser()
	}
	c.PlainP.Expect("CONNECT")
	c.connects++
	c.C.OnData(func(b []byte) { c.PlainP.Feed(b) }, func() { c.PlainP.End(); c.mu.Lock(); c.EOF = true; c.mu.Unlock() }, func() { c.mu.Lock(); c.EOF = true; c.mu.Unlock() })
	c.C.Inject([]byte(fmt.Sprintf("CONNECT %s HTTP/1.1\r\nHost: %s\r\n%s\r\n", authority, authority, extra)))
}

// Connected reports whether the CONNECT was answered with a 2xx.
func (c *TLSClient) Connected() bool {
	if c.outerFailed {
		return false
	}
	return len(c.PlainP.Msgs) > 0 && c.PlainP.Msgs[0].Status/100 == 2
}

// Start switches the connection to goroutine mode and launches the actor goroutines.
// With NoTLS the client speaks plain HTTP inside the tunnel; directTLS starts TLS without CONNECT.
func (c *TLSClient) Start() {
	if c.started {
		return
	}
	c.started = true
	pre := append([]byte(nil), c.PlainP.Raw...)
	c.C.OnData(nil, nil, nil)
	var rw net.Conn = c.C
	go func() {
		if c.OuterCfg != nil {
			// the tunnel just opened is an outer one: TLS with its authority, then a CONNECT to the
			// inner authority through it; everything after that happens inside the inner tunnel
			otc := tls.Client(rw, c.OuterCfg)
			err := otc.Handshake()
			var head []byte
			if err == nil {
				_, err = otc.Write([]byte(fmt.Sprintf("CONNECT %s HTTP/1.1\r\nHost: %s\r\n\r\n", c.InnerConnect, c.InnerConnect)))
			}
			one := make([]byte, 1)
			for err == nil && !bytes.HasSuffix(head, []byte("\r\n\r\n")) {
				if _, err = otc.Read(one); err == nil {
					head = append(head, one[0])
				}
			}
			if err == nil && !bytes.HasPrefix(head, []byte("HTTP/1.1 200")) {
				err = fmt.Errorf("inner CONNECT answered with %q", head)
			}
			if err != nil {
				c.mu.Lock()
				c.HSDone, c.HSErr = true, fmt.Errorf("outer tunnel: %w", err)
				c.mu.Unlock()
				return
			}
			rw = otc
			if c.NoTLS {
				c.tc = otc // (what the client writes goes through the outer TLS session)
			}
		}
		if !c.NoTLS {
			c.tc = tls.Client(rw, c.cfg)
			err := c.tc.Handshake()
			c.mu.Lock()
			c.HSDone, c.HSErr = true, err
			if err == nil {
				c.State = c.tc.ConnectionState()
			}
			c.mu.Unlock()
			if err != nil {
				return
			}
			rw = c.tc
		} else {
			c.mu.Lock()
			c.HSDone = true
			c.P.Feed(pre)
			c.mu.Unlock()
		}
		go func() {
			buf := make([]byte, 16384)
			for {
				n, err := rw.Read(buf)
				c.mu.Lock()
				if n > 0 {
					c.P.Feed(buf[:n])
				}
				if err != nil {
					if err == io.EOF {
						c.P.End()
					}
					c.EOF = true
					c.RdErr = err
					c.mu.Unlock()
					return
				}
				c.mu.Unlock()
			}
		}()
		for f := range c.cmds {
			f()
		}
	}()
	c.cmds <- func() {}
}

// Send writes bytes inside the (TLS) session on the actor goroutine.
func (c *TLSClient) Send(method string, b []byte) {
	c.mu.Lock()
	if method != "" {
		c.P.Expect(method)
	}
	c.mu.Unlock()
	c.cmds <- func() {
		if c.tc != nil {
			c.tc.Write(b)
		} else {
			c.C.Write(b)
		}
	}
}

// Close closes the client's connection.
func (c *TLSClient) Close() {
	if c.closed {
		return
	}
	c.closed = true
	if c.started {
		c.cmds <- func() {
			if c.tc != nil {
				c.tc.Close()
			} else {
				c.C.Close()
			}
		}
	} else {
		c.C.Close()
	}
}

// Snapshot returns the responses parsed so far and the connection status.
func (c *TLSClient) Snapshot() (final []*wire.Msg, hsDone bool, hsErr error, eof bool, perr error, raw []byte) {
	c.mu.Lock()
	defer c.mu.Unlock()
	return append([]*wire.Msg(nil), c.P.Final()...), c.HSDone, c.HSErr, c.EOF, c.P.Err, append([]byte(nil), c.P.Raw...)
}
