package worlds

import (
	"crypto/tls"
	"sync"
	"time"

	"verifsim/kernel"
	"verifsim/simnet"

	"github.com/google/martian/v3"
)

// C07M — shutdown while a MITM'd CONNECT tunnel is between its 200 and its first decrypted request:
// the client has its 200 and has sent nothing, or the first byte of a TLS record, or a record
// header, or part of a ClientHello, or a whole ClientHello after which it no longer reads. No
// exchange is in flight on such a connection; shutdown has to close it and return, long before the
// connection's own idle timeout would.

func init() {
	register(&World{
		Name: "C07M", Prop: "C07", Run: runC07M, MaxSteps: 4000, WarmCrypto: true,
		Real: []string{"martian.Proxy.Serve/Close, CONNECT + MITM branch up to and including the TLS handshake", "mitm.Config, crypto/tls server side"},
		Stub: append([]string{"CONNECT client that stalls inside the TLS handshake", "simulated clock"}, commonStub...),
	})
}

func runC07M(k *kernel.K) {
	w := k.W
	k.FastAdvance = true
	n := simnet.New(k)
	n.DefaultPolicy = simnet.ChunkPolicy(w.Pick([]int{5, 3, 1, 1, 0, 2}))
	env := newTLSEnv()
	proxy := martian.NewProxy()
	proxy.SetDial(n.DialFunc("proxy"))
	proxy.SetMITM(env.mitmConfig())
	timeout := []time.Duration{5 * time.Minute, 10 * time.Minute}[w.Draw(2)]
	proxy.SetTimeout(timeout)
	l := n.Listen("10.0.0.1:8080")
	go proxy.Serve(l)
	cl := NewTLSClient(k, l, "cl0", "10.1.0.2", &tls.Config{RootCAs: env.pool, ServerName: "secure.test"})
	cl.SendConnect("secure.test:443", "")
	wait := func(done func() bool) bool {
		for guard := 0; guard < 2000; guard++ {
			k.Settle()
			if done() {
				return true
			}
			if !k.Step() {
				return done()
			}
		}
		return done()
	}
	finish := func() {
		cl.C.Peer().Stall(false)
		cl.Close()
		k.Drain()
		n.Shutdown()
		k.Settle()
		if cl.started {
			close(cl.cmds)
		}
		k.Settle()
	}
	if !wait(cl.Connected) {
		k.Inconclusive = "connect_not_answered"
		finish()
		return
	}
	point := []string{"nothing_sent", "first_byte", "record_header", "partial_hello", "hello_then_silent"}[w.Pick([]int{1, 2, 2, 3, 3})]
	k.Probe("c07m_" + point)
	hello := []byte{0x16, 0x03, 0x01, 0x02, 0x00, 0x01, 0x00, 0x01, 0xfc, 0x03, 0x03}
	switch point {
	case "first_byte":
		cl.C.Inject(hello[:1])
	case "record_header":
		cl.C.Inject(hello[:5])
	case "partial_hello":
		cl.C.Inject(append(append([]byte(nil), hello...), bodyBytes(1, 'h', 1+w.Draw(300))...))
	case "hello_then_silent":
		// the client's hello goes out whole; what the proxy answers is never taken off the wire
		cl.C.Peer().Stall(true)
		if w.Chance(1, 2) {
			cl.C.SetCap(256)
		}
		cl.Start()
	}
	k.Drain()
	k.Advance(time.Duration(w.Draw(20)) * time.Second)
	k.Drain()
	var mu sync.Mutex
	returned := false
	go func() {
		proxy.Close()
		mu.Lock()
		returned = true
		mu.Unlock()
	}()
	k.Drain()
	const grace = time.Minute
	k.Advance(grace)
	k.Drain()
	mu.Lock()
	r := returned
	mu.Unlock()
	if !r {
		k.Fail("C07.no_deadlock", map[string]string{"busy_tunnel": "false", "point": "mitm_" + point}, "a client has its 200 for CONNECT (MITM) and stalls (%s); no exchange is in flight on its connection. proxy.Close() has not returned %v of simulated time after it was called (the connection's idle timeout is %v); the proxy's end of the client connection closed: %v; martian goroutines: %s", point, grace, timeout, cl.C.Peer().Closed(), kernel.FormatSummary(kernel.CensusSummary(k.Census(), "martian/v3.")))
	} else if !cl.C.Peer().Closed() {
		k.Fail("C07.close_waits", map[string]string{"left_over": "mitm_" + point}, "proxy.Close() returned while the proxy's end of a client connection (200 for CONNECT received, %s) is still open", point)
	}
	finish()
	// let whatever waited for the idle timeout run out
	k.Advance(timeout + time.Minute)
	k.Settle()
}
