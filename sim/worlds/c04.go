package worlds

import (
	"bytes"
	"fmt"
	"github.com/google/martian/v3"
	"github.com/google/martian/v3/trafficshape"
	"net/url"
	"strings"
	"time"

	"verifsim/kernel"
	"verifsim/simnet"
	"verifsim/wire"
)

// C04 — blind CONNECT tunnels are byte-transparent both ways and propagate end-of-stream.

func init() {
	register(&World{
		Name: "C04", Prop: "C04", Run: runC04, MaxSteps: 60000,
		Real: []string{"martian.Proxy (handleConnectRequest, connect, tunnel copy loops)", "bufio, io.Copy"},
		Stub: append([]string{"raw tunnel client", "raw tunnel target", "downstream-proxy stub answering the forwarded CONNECT"}, commonStub...),
	})
}

// tunEnd is one raw endpoint of a tunnel.
type tunEnd struct {
	k       *kernel.K
	name    string
	c       *simnet.Conn
	plan    []byte // bytes this end will write
	chunks  []int
	sent    int
	ci      int
	recv    []byte
	sawEOF  bool
	sawRST  bool
	closed  bool
	eofStep int
	ready   bool // may start writing
	hold    bool
}

func (e *tunEnd) canWrite() bool {
	return e.c != nil && e.ready && !e.hold && !e.closed && !e.sawRST && e.sent < len(e.plan)
}

func (e *tunEnd) writeChunk() {
	n := len(e.plan) - e.sent
	if e.ci < len(e.chunks) && e.chunks[e.ci] < n {
		n = e.chunks[e.ci]
	}
	e.ci++
	e.c.Inject(e.plan[e.sent : e.sent+n])
	e.sent += n
}

func (e *tunEnd) close() {
	if !e.closed && e.c != nil {
		e.closed = true
		e.c.Close()
	}
}

func (e *tunEnd) actions(add func(kernel.Action)) {
	if e.canWrite() {
		add(kernel.Action{Key: e.name + " write", W: 3, Class: kernel.Actor, Do: e.writeChunk})
	}
}

func runC04(k *kernel.K) {
	w := k.W
	n := simnet.New(k)
	n.TCPLikeConns = !w.Chance(1, 4)
	personality := "tcp"
	if !n.TCPLikeConns {
		personality = "bare"
	}
	big := w.Chance(1, 8)
	if big {
		n.DefaultPolicy = []simnet.ChunkPolicy{simnet.ChunkAll, simnet.ChunkHuge}[w.Draw(2)]
		n.DefaultCap = []int{0, 65536, 16384}[w.Draw(3)]
	} else {
		n.DefaultPolicy = simnet.ChunkPolicy(w.Pick([]int{4, 3, 2, 1, 0, 3}))
		n.DefaultCap = []int{0, 4096, 65536, 700}[w.Pick([]int{3, 2, 2, 1})]
	}
	proxy := martian.NewProxy()
	proxy.SetDial(n.DialFunc("proxy"))
	l := n.Listen("10.0.0.1:8080")
	if w.Chance(1, 5) {
		// the listener cmd/proxy uses with -traffic-shaping (no shapes configured): the client
		// connection the tunnel code sees is a *trafficshape.Conn
		personality += "+shaped_listener"
		go proxy.Serve(trafficshape.NewListener(l))
	} else {
		go proxy.Serve(l)
	}
	mode := []string{"direct", "downstream", "unreachable"}[w.Pick([]int{5, 3, 1})]
	authority := "target.test:443"

	sizes := []int{0, 1, 5, 100, 1000, 4095, 4096, 4097, 9000, 70000}
	sizeW := []int{2, 2, 3, 4, 4, 2, 2, 2, 3, 2}
	pickSize := func() int {
		if big {
			return []int{1 << 20, 300000, 4 << 20}[w.Pick([]int{3, 3, 1})]
		}
		if n.DefaultPolicy == simnet.ChunkSmall || n.DefaultPolicy == simnet.ChunkMed {
			return sizes[w.Pick(sizeW[:7])]
		}
		return sizes[w.Pick(sizeW)]
	}
	mkChunks := func(total int) []int {
		var cs []int
		for i, m := 0, w.Draw(6); i < m; i++ {
			cs = append(cs, []int{1, 3, 50, 1000, 4096, 5000, 70000}[w.Draw(7)])
		}
		return cs
	}
	cl := &tunEnd{k: k, name: "client"}
	tg := &tunEnd{k: k, name: "target"}
	cl.plan = bodyBytes(1, 'c', pickSize())
	tg.plan = bodyBytes(2, 't', pickSize())
	cl.chunks, tg.chunks = mkChunks(len(cl.plan)), mkChunks(len(tg.plan))
	early := 0
	if w.Chance(1, 3) && len(cl.plan) > 0 {
		early = 1 + w.Draw(min(len(cl.plan), 5000))
	}
	serverFirstCoalesced := mode == "downstream" && w.Chance(1, 3) && len(tg.plan) > 0
	earlyClass := "none"
	if early > 0 {
		earlyClass = "coalesced_with_connect"
	}

	// Client side parser for the CONNECT response.
	rp := wire.NewRespParser()
	rp.Expect("CONNECT")
	cl.c = l.Connect("client", "10.1.0.2")
	cl.c.OnData(func(b []byte) {
		rp.Feed(b)
		if len(rp.Raw) > 0 {
			cl.recv = append(cl.recv, rp.Raw...)
			rp.Raw = nil
		}
		if len(rp.Msgs) > 0 && rp.Msgs[0].Status == 200 {
			cl.ready = true
		}
	}, func() { cl.sawEOF = true; cl.eofStep = k.StepN; rp.End() }, func() { cl.sawRST = true })

	var dsReq *wire.Parser
	attach := func(c *simnet.Conn) {
		tg.c = c
		c.OnData(func(b []byte) { tg.recv = append(tg.recv, b...) }, func() { tg.sawEOF = true; tg.eofStep = k.StepN }, func() { tg.sawRST = true })
		tg.ready = true
	}
	switch mode {
	case "direct":
		n.Handle(authority, attach)
	case "downstream":
		u, _ := url.Parse("http://dsproxy.test:3128")
		proxy.SetDownstreamProxy(u)
		n.Handle("dsproxy.test:3128", func(c *simnet.Conn) {
			dsReq = wire.NewReqParser()
			tg.c = c
			c.OnData(func(b []byte) {
				if !tg.ready {
					dsReq.Feed(b)
					if len(dsReq.Msgs) > 0 {
						// Answer the forwarded CONNECT; optionally the target's first bytes ride in the same segment.
						resp := []byte("HTTP/1.1 200 Connection established\r\n\r\n")
						if serverFirstCoalesced {
							m := min(len(tg.plan), 1+w.Draw(200))
							resp = append(resp, tg.plan[:m]...)
							tg.sent = m
						}
						c.Inject(resp)
						tg.ready = true
						tg.recv = append(tg.recv, dsReq.Raw...)
						dsReq.Raw = nil
					}
					return
				}
				tg.recv = append(tg.recv, b...)
			}, func() { tg.sawEOF = true; tg.eofStep = k.StepN }, func() { tg.sawRST = true })
		})
	case "unreachable":
		// no handler: dial refused
	}
	k.AddSource(cl.actions)
	k.AddSource(tg.actions)
	// Pauses: the clock moves while the tunnel is in use. No gap between two moments at which bytes
	// passed through the proxy is longer than 200 s (the idle timeout is 5 minutes), but the tunnel
	// as a whole may live for longer than that.
	pausesLeft, consecutive, lastProgress := 0, 0, -1
	if w.Chance(1, 4) {
		pausesLeft = 2 + w.Draw(4)
	}
	k.AddSource(func(add func(kernel.Action)) {
		if pausesLeft == 0 || k.Draining || !(cl.ready && tg.c != nil && tg.ready) || (!cl.canWrite() && !tg.canWrite()) {
			return
		}
		// progress = bytes the proxy has read (what its idle timer sees), not bytes that have
		// reached the far end or that merely wait in the proxy's socket buffer
		p := cl.sent - cl.c.InFlight() - cl.c.Peer().Unread() + tg.sent
		if tg.c != nil {
			p -= tg.c.InFlight() + tg.c.Peer().Unread()
		}
		if p != lastProgress {
			consecutive, lastProgress = 0, p
		}
		if consecutive >= 2 {
			return
		}
		add(kernel.Action{Key: "pause 100s", W: 1, Class: kernel.Clock, Do: func() {
			pausesLeft--
			consecutive++
			k.Probe("tunnel_in_use_across_pause")
			k.Advance(100 * time.Second)
		}})
	})
	k.StateFn = func() string {
		return fmt.Sprintf("%s|%d/%d.%v|%d/%d.%v", n.Fingerprint(), cl.sent, len(cl.recv), cl.sawEOF, tg.sent, len(tg.recv), tg.sawEOF)
	}

	closer, survivor := cl, tg
	if w.Chance(1, 2) {
		closer, survivor = tg, cl
	}
	midStream := w.Chance(1, 3)
	k.Note("mode=%s personality=%s policy=%d cap=%d client=%dB (early %d) target=%dB serverFirstCoalesced=%v closer=%s midStream=%v", mode, personality, n.DefaultPolicy, n.DefaultCap, len(cl.plan), early, len(tg.plan), serverFirstCoalesced, closer.name, midStream)

	// The CONNECT head, with early payload in the same write.
	head := []byte(fmt.Sprintf("CONNECT %s HTTP/1.1\r\nHost: %s\r\n\r\n", authority, authority))
	cl.c.Inject(append(head, cl.plan[:early]...))
	cl.sent = early

	prefixCheck := func() {
		if !bytes.HasPrefix(cl.plan, tg.recv) {
			d := firstDiff(tg.recv, cl.plan)
			k.Fail("C04.prefix", map[string]string{"dir": "client_to_target"}, "target received bytes that are not a prefix of what the client sent: offset %d got %s want %s", d, excerpt(tg.recv, d), excerpt(cl.plan, d))
		}
		if !bytes.HasPrefix(tg.plan, cl.recv) {
			d := firstDiff(cl.recv, tg.plan)
			k.Fail("C04.prefix", map[string]string{"dir": "target_to_client"}, "client received bytes that are not a prefix of what the target sent: offset %d got %s want %s", d, excerpt(cl.recv, d), excerpt(tg.plan, d))
		}
	}
	k.AddInvariant(prefixCheck)

	if mode == "unreachable" {
		k.Drain()
		fin := rp.Final()
		if len(fin) != 1 || fin[0].Status != 502 || !fin[0].Has("Warning") {
			st := -1
			if len(fin) > 0 {
				st = fin[0].Status
			}
			k.Fail("C04.connect_502", nil, "CONNECT to an unreachable target: want a 502 with a Warning header, got %d responses, status %d, parser error %v", len(fin), st, rp.Err)
		} else {
			k.Probe("connect_502")
		}
		cl.close()
		k.Drain()
		n.Shutdown()
		k.Settle()
		return
	}

	if midStream {
		// Let a drawn amount of traffic happen, then the closer closes with data possibly in flight.
		k.RunUntil(func() bool { return cl.ready && tg.c != nil && tg.ready })
		for i, m := 0, w.Draw(40); i < m && k.Step(); i++ {
		}
		k.Settle()
	} else {
		// Phase 1: both ends write everything; at network quiescence everything must have arrived.
		k.RunUntil(func() bool { return false })
		k.Drain()
		if k.Inconclusive != "" {
			n.Shutdown()
			k.Settle()
			return
		}
		if len(rp.Msgs) == 0 || rp.Msgs[0].Status != 200 {
			k.Fail("C04.all_delivered", map[string]string{"dir": "connect_response", "early_data": earlyClass, "personality": personality}, "no 200 response to CONNECT at network quiescence (responses=%d err=%v); martian goroutines: %s", len(rp.Msgs), rp.Err, stacksOf(k, "handleConnectRequest"))
		} else {
			if cl.sent == len(cl.plan) && len(tg.recv) != len(cl.plan) {
				k.Fail("C04.all_delivered", map[string]string{"dir": "client_to_target", "early_data": earlyClass, "personality": personality}, "client wrote %d bytes (%d of them with the CONNECT head), target received %d at network quiescence with both ends open", len(cl.plan), early, len(tg.recv))
			}
			coal := "none"
			if serverFirstCoalesced {
				coal = "coalesced_with_downstream_200"
			}
			if tg.sent == len(tg.plan) && len(cl.recv) != len(tg.plan) {
				k.Fail("C04.all_delivered", map[string]string{"dir": "target_to_client", "early_data": coal, "personality": personality}, "target wrote %d bytes, client received %d at network quiescence with both ends open", len(tg.plan), len(cl.recv))
			}
			k.Probe("phase1_complete")
			if early > 0 {
				k.Probe("early_data")
			}
		}
	}

	// Phase 2: the closer closes (orderly), or aborts its connection (reset).
	closerSent := closer.sent
	closer.hold = true
	abort := w.Chance(1, 4)
	if abort {
		k.FaultFired("tunnel_end_resets_connection")
		closer.closed = true
		closer.c.Abort()
	} else {
		closer.close()
	}
	k.Drain()
	if k.Inconclusive != "" {
		n.Shutdown()
		k.Settle()
		return
	}
	ready := len(rp.Msgs) > 0 && rp.Msgs[0].Status == 200
	if ready || closer == cl {
		// Everything the closer sent before closing must have reached the survivor, then EOF.
		// (Skipped for directions already reported in phase 1.)
		if len(survivor.recv) != closerSent && !k.Failed() && !abort {
			k.Fail("C04.all_delivered", map[string]string{"dir": closer.name + "_before_close", "early_data": earlyClass, "personality": personality}, "%s wrote %d bytes and closed; %s received %d at network quiescence", closer.name, closerSent, survivor.name, len(survivor.recv))
		}
		if !survivor.sawEOF && !survivor.sawRST {
			after := "never within 2x the idle timeout"
			if k.Advance(5*time.Minute + time.Second) {
				k.Drain()
				if survivor.sawEOF || survivor.sawRST {
					after = "only after the proxy's 5-minute idle deadline"
				} else if k.Advance(5 * time.Minute) {
					k.Drain()
					if survivor.sawEOF || survivor.sawRST {
						after = "only after two idle deadlines"
					}
				}
			}
			k.Fail("C04.eof_propagation", map[string]string{"closer": closer.name, "personality": personality}, "%s closed after sending %d bytes; at network quiescence %s had not observed end-of-stream (%s)", closer.name, closerSent, survivor.name, after)
		} else {
			k.Probe("eof_propagated_" + closer.name)
		}
	}
	// The survivor reacts to the end of the tunnel by closing as well.
	survivor.hold = true
	survivor.close()
	k.Drain()
	var open []string
	for _, c := range n.Conns() {
		lb := c.Label()
		if (strings.HasPrefix(lb, "srv(") || strings.HasPrefix(lb, "proxy>")) && !c.Closed() {
			open = append(open, lb)
		}
	}
	if len(open) > 0 {
		k.Fail("C04.conns_released", nil, "both tunnel ends have closed; at network quiescence the proxy still holds %v open", open)
	}
	n.Shutdown()
	k.Settle()
}
