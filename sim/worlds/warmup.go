package worlds

import (
	"crypto/tls"
	"net"
)

// cryptoWarmUp exercises every cryptographic primitive the TLS worlds use once per process.
// The Go cryptographic module runs one-time self-tests on first use of an algorithm, and some
// of them draw from the random source; doing that before the first run keeps the first run of
// a process identical to the same run executed later in another process.
func cryptoWarmUp() {
	env := newTLSEnv()
	mc := env.mitmConfig()
	srvCfg := mc.TLSForHost("warmup.test")
	c1, c2 := net.Pipe()
	done := make(chan struct{})
	go func() {
		s := tls.Server(c2, srvCfg)
		s.Handshake()
		buf := make([]byte, 4)
		s.Read(buf)
		s.Write([]byte("pong"))
		s.Close()
		close(done)
	}()
	c := tls.Client(c1, &tls.Config{RootCAs: env.pool, ServerName: "warmup.test"})
	if err := c.Handshake(); err == nil {
		c.Write([]byte("ping"))
		buf := make([]byte, 4)
		c.Read(buf)
	}
	c.Close()
	<-done
	// and an ECDSA-certificate server, as the TLS origins use
	leaf := env.leaf("warmup2.test")
	d1, d2 := net.Pipe()
	done2 := make(chan struct{})
	go func() {
		s := tls.Server(d2, &tls.Config{Certificates: []tls.Certificate{leaf}})
		s.Handshake()
		s.Close()
		close(done2)
	}()
	d := tls.Client(d1, &tls.Config{RootCAs: env.pool, ServerName: "warmup2.test"})
	d.Handshake()
	d.Close()
	<-done2
}
