package worlds

import (
	"bytes"
	"fmt"
	"runtime/debug"

	"verifsim/kernel"
	"verifsim/simnet"

	"github.com/google/martian/v3"
)

// C03N — "no byte sequence sent by a client terminates the proxy process": with MITM configured, a
// client sends CONNECT after CONNECT on one connection (each is answered 200 and the next one is
// the first request inside the tunnel of the one before). The goroutine stack limit of the worker
// is lowered for the run, so that unbounded recursion per nested CONNECT ends the process after
// a few thousand of them instead of a quarter of a million (the runner reports a crash whose
// running goroutine is in martian code as a violation).

func init() {
	register(&World{
		Name: "C03N", Prop: "C03", Run: runC03N, MaxSteps: 4000,
		Real: []string{"martian.Proxy: handleLoop, handle, handleConnectRequest (MITM branch, clear-text tunnel content)", "mitm.Config"},
		Stub: append([]string{"raw client sending nested CONNECTs", "lowered goroutine stack limit (debug.SetMaxStack) for the run"}, commonStub...),
	})
}

func runC03N(k *kernel.K) {
	w := k.W
	n := simnet.New(k)
	n.DefaultAuto = true
	env := newTLSEnv()
	proxy := martian.NewProxy()
	proxy.SetDial(n.DialFunc("proxy"))
	proxy.SetMITM(env.mitmConfig())
	l := n.Listen("10.0.0.1:8080")
	go proxy.Serve(l)
	k.Settle()
	prev := debug.SetMaxStack(3 << 20)
	defer debug.SetMaxStack(prev)
	nested := 2500 + w.Draw(1500)
	k.Probe("nested_connects")
	c := l.Connect("nester", "10.1.0.2")
	var got bytes.Buffer
	eof := false
	c.OnData(func(b []byte) { got.Write(b) }, func() { eof = true }, func() { eof = true })
	one := []byte("CONNECT a.test:1 HTTP/1.1\r\nHost: a.test:1\r\n\r\n")
	// in a few large writes
	var buf []byte
	for i := 0; i < nested; i++ {
		buf = append(buf, one...)
		if len(buf) > 32000 || i == nested-1 {
			c.Inject(buf)
			buf = nil
			k.Drain()
		}
	}
	k.Drain()
	answers := bytes.Count(got.Bytes(), []byte("HTTP/1.1 200"))
	if answers != nested {
		k.Fail("C03.proxy_alive", map[string]string{"input": "nested_connects"}, "%d nested CONNECT requests were sent on one connection, %d were answered with 200 (connection ended: %v)", nested, answers, eof)
	}
	c.Close()
	k.Drain()
	n.Shutdown()
	k.Settle()
	_ = fmt.Sprint
}
