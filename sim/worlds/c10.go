package worlds

import (
	"fmt"
	"strings"
	"time"

	"verifsim/kernel"
	"verifsim/simnet"

	"golang.org/x/net/http2"
	"golang.org/x/net/http2/hpack"
)

// C10 — the HTTP/2 relay terminates and releases both connections whichever side ends.

func init() {
	register(&World{
		Name: "C10", Prop: "C10", Run: runC10, MaxSteps: 20000,
		Real: []string{"h2.Config.Proxy (dial, both relay directions, join)", "h2 relay reader/writer shutdown handshake, output queues, flow-control locks"},
		Stub: append([]string{"scripted HTTP/2 endpoints", "upstream dial (seam R1)", "write faults, garbage frames, stalls on the simulated connections"}, commonStub...),
	})
}

var c10States = []string{"idle", "mid_stream", "blocked_on_window", "output_full_to_server", "output_full_to_client", "before_preface", "during_dial"}
var c10Events = []string{"client_closes", "server_closes", "write_error_to_client", "write_error_to_server", "garbage_from_client", "garbage_from_server", "shutdown"}

func runC10(k *kernel.K) {
	w := k.W
	hw := &h2World{k: k, n: simnet.New(k), closing: make(chan bool)}
	n := hw.n
	n.DefaultPolicy = []simnet.ChunkPolicy{simnet.ChunkAll, simnet.ChunkBig, simnet.ChunkMixed, simnet.ChunkMed}[w.Draw(4)]
	n.DefaultCap = []int{0, 4096, 600}[w.Pick([]int{2, 2, 2})]
	n.TCPLikeConns = w.Chance(1, 2)
	state := c10States[w.Draw(len(c10States))]
	event := c10Events[w.Draw(len(c10Events))]
	if state == "during_dial" {
		// the upstream accepts the connection and then stays silent: Config.Proxy is still
		// setting up its upstream connection when the proxy shuts down
		hw.stallDial = make(chan struct{})
		event = "shutdown"
	}
	hw.start(nil)
	cl, sv := hw.cl, hw.sv
	if state == "before_preface" {
		// the client is connected and the upstream dialled, but the client has not sent its
		// connection preface yet: only these ways of ending make sense
		event = []string{"client_closes", "shutdown", "garbage_from_client"}[w.Draw(3)]
	}
	k.Note("state=%s event=%s policy=%d cap=%d", state, event, n.DefaultPolicy, n.DefaultCap)

	req := func(id uint32) *H2Op {
		return &H2Op{Kind: "headers", Stream: id, Fields: []hpack.HeaderField{{Name: ":method", Value: "POST"}, {Name: ":scheme", Value: "https"}, {Name: ":authority", Value: "origin.test"}, {Name: ":path", Value: fmt.Sprintf("/s%d", id)}}}
	}
	resp := func(id uint32) *H2Op {
		return &H2Op{Kind: "headers", Stream: id, NeedOpen: true, Fields: []hpack.HeaderField{{Name: ":status", Value: "200"}}}
	}
	data := func(id uint32, nbytes int, needOpen bool) *H2Op {
		return &H2Op{Kind: "data", Stream: id, Data: bodyBytes(int(id), 'd', nbytes), Pad: -1, NeedOpen: needOpen}
	}
	cl.Script = []*H2Op{{Kind: "settings"}}
	sv.Script = []*H2Op{{Kind: "settings"}}
	switch state {
	case "mid_stream":
		cl.Script = append(cl.Script, req(1), data(1, 1000, false), req(3), data(3, 3000, false))
		sv.Script = append(sv.Script, resp(1), data(1, 2000, true))
	case "blocked_on_window":
		// The server advertises a zero window and never grants: client DATA queues up in the relay.
		sv.NoAutoGrant = true
		sv.Script = []*H2Op{{Kind: "settings", Settings: []http2.Setting{{ID: http2.SettingInitialWindowSize, Val: 0}}}, resp(1)}
		cl.Script = append(cl.Script, req(1), data(1, 5000, false), data(1, 5000, false), req(3), data(3, 5000, false))
		if w.Chance(1, 3) {
			// variant: the server starts with the default windows and never grants more; the client
			// sends so many small frames that, once the 65535 bytes are used up, more frames than
			// the relay's output channel holds are queued behind the window
			sv.Script = []*H2Op{{Kind: "settings"}, resp(1)}
			sv.NeverGrant = true
			cl.Script = []*H2Op{{Kind: "settings"}, req(1)}
			for i, m := 0, 185+w.Draw(40); i < m; i++ {
				cl.Script = append(cl.Script, data(1, 400, false))
			}
		}
	case "output_full_to_server", "output_full_to_client":
		// One direction of the relay cannot write (peer's socket buffer full and not drained)
		// while more frames than the output channel holds keep coming.
		snd, stalled := cl, hw.scSys
		if state == "output_full_to_client" {
			snd, stalled = sv, hw.ccSys
		}
		stalled.SetCap(300)
		needOpen := snd == sv
		cl.Script = append(cl.Script, req(1))
		if snd == sv {
			sv.Script = append(sv.Script, resp(1))
		}
		for i := 0; i < 24+w.Draw(40); i++ {
			snd.Script = append(snd.Script, &H2Op{Kind: "priority", Stream: 1, Prio: http2.PriorityParam{Weight: uint8(i)}, HasPrio: true, NeedOpen: needOpen})
		}
		snd.Script = append(snd.Script, data(1, 400, needOpen))
		defer func() {}()
		// stall once the session is up (set below)
		k.AddInvariant(func() {})
	}
	k.StateFn = func() string {
		d, _ := hw.done()
		return fmt.Sprintf("%s|%d.%d|%d.%d|%v", n.Fingerprint(), cl.next, len(cl.Recv), sv.next, len(sv.Recv), d)
	}

	if state == "during_dial" {
		cl.Script, sv.Script = nil, nil
		k.Probe("ended_during_the_upstream_dial")
	} else if state != "before_preface" {
		cl.SendPreface()
	} else {
		cl.Script, sv.Script = nil, nil
		k.Probe("ended_before_the_preface")
	}
	// Reach the state.
	if strings.HasPrefix(state, "output_full") {
		// let the session come up, then stop draining the stalled side
		k.RunUntil(func() bool { return len(cl.Recv) >= 1 && len(sv.Recv) >= 1 })
		if state == "output_full_to_server" {
			hw.scSys.Stall(true)
		} else {
			hw.ccSys.Stall(true)
		}
	}
	full := w.Chance(2, 3)
	if full {
		for k.Step() {
		}
	} else {
		for i, m := 0, w.Draw(40); i < m && k.Step(); i++ {
		}
	}
	k.Settle()
	if d, err := hw.done(); d {
		k.Fail("C10.returns", map[string]string{"event": "none", "state": state}, "Config.Proxy returned before any terminating event: %v", err)
		hw.cleanup()
		return
	}
	if state == "blocked_on_window" && full {
		k.Probe("data_queued_behind_zero_window")
	}
	// Is a relay reader itself stuck pushing into a full output channel (its writer being blocked
	// on the stalled socket)? Then that direction cannot look at its source any more.
	readerBlocked := "no"
	if strings.HasPrefix(state, "output_full") {
		for _, g := range k.Census() {
			if g.Has("emitEligibleFrames") && strings.HasPrefix(g.State, "chan send") {
				k.Probe("reader_blocked_on_full_output_channel")
				readerBlocked = strings.TrimPrefix(state, "output_full_")
			}
		}
	}

	illegalSettings := strings.HasPrefix(event, "garbage_from_") && w.Chance(1, 3)
	// The terminating event.
	provoke := func(e *H2End) {
		// something for the relay to write towards the faulty side
		e.Do(&H2Op{Kind: "ping", Ping: [8]byte{0xee}})
	}
	k.Do(kernel.Action{Key: "event " + event, Class: kernel.Fault, Fault: "h2_" + event, Do: func() {
		switch event {
		case "client_closes":
			cl.Close()
		case "server_closes":
			sv.Close()
		case "write_error_to_client":
			hw.ccSys.FailWritesAfter(w.Draw(16))
			hw.ccSys.Stall(false)
			provoke(sv)
		case "write_error_to_server":
			hw.scSys.FailWritesAfter(w.Draw(16))
			hw.scSys.Stall(false)
			provoke(cl)
		case "garbage_from_client":
			if state == "before_preface" {
				// 24 bytes or more that are not the connection preface
				cl.C.Inject([]byte("GET / HTTP/1.1\r\nHost: origin.test\r\n\r\n"))
			} else if illegalSettings {
				cl.C.Inject(c10IllegalSettings(k))
			} else {
				cl.C.Inject(c10Garbage(k))
			}
		case "garbage_from_server":
			if illegalSettings {
				sv.C.Inject(c10IllegalSettings(k))
			} else {
				sv.C.Inject(c10Garbage(k))
			}
		case "shutdown":
			close(hw.closing)
		}
	}})
	k.Drain()
	if state == "blocked_on_window" && event == "client_closes" && w.Chance(1, 2) {
		// The survivor is not merely passive: after the client has gone the server opens its
		// windows wide, but reads slowly (its socket buffer is small and not drained).
		if d, _ := hw.done(); !d && !sv.EOF && !sv.RST {
			k.Probe("survivor_grants_then_reads_slowly")
			hw.scSys.SetCap(300)
			hw.scSys.Stall(true)
			sv.GrantExtra(0, 1<<20)
			sv.GrantExtra(1, 1<<20)
			sv.GrantExtra(3, 1<<20)
			k.Drain()
		}
	}
	if illegalSettings && strings.HasPrefix(event, "garbage_from_") && !strings.HasPrefix(state, "output_full") {
		// (with a full output channel the relay may not even read the illegal frame: that is the
		// known finding about blocked readers, judged by the checks below without extra traffic)
		// The other endpoint goes on as if nothing had happened: a request (or response) head with
		// a priority and some DATA, which the relay would have to fit into the illegal frame size.
		k.Probe("illegal_max_frame_size_setting")
		if d, _ := hw.done(); !d {
			other := cl
			if event == "garbage_from_client" {
				other = sv
			}
			if !other.EOF && !other.RST {
				other.Do(&H2Op{Kind: "headers", Stream: 1, HasPrio: true, Prio: http2.PriorityParam{Weight: 200}, Fields: []hpack.HeaderField{{Name: ":method", Value: "GET"}, {Name: ":scheme", Value: "https"}, {Name: ":authority", Value: "origin.test"}, {Name: ":path", Value: "/after"}}})
				other.Do(&H2Op{Kind: "data", Stream: 1, Data: bodyBytes(1, 'z', 300), Pad: -1})
			}
			k.Drain()
		}
	}
	bounded := "at network quiescence"
	if d, _ := hw.done(); !d {
		// The property allows a bounded time: give it a simulated minute. (Mutex waits do not stop
		// the bubble clock, seam R0e: a goroutine that holds a lock across a wait with a deadline
		// - the lingering close after a drain - is not a deadlock.)
		k.FastAdvance = true
		k.Advance(60 * time.Second)
		k.FastAdvance = false
		k.Drain()
		bounded = "within 60 s of simulated time"
		if d, _ := hw.done(); !d {
			if mb := k.MutexBlocked(); len(mb) > 0 {
				var locks []string
				for _, g := range mb {
					locks = append(locks, g.TopWith("martian/v3/h2")+" ["+g.State+"]")
				}
				k.Fail("C10.mutex_deadlock", map[string]string{"event": event, "state": state}, "after %s in state %s and 60 s of simulated time Config.Proxy has not returned and goroutines wait on mutexes: %v; h2 goroutines: %s", event, state, locks, kernel.FormatSummary(kernel.CensusSummary(k.Census(), "martian/v3/h2.")))
			}
		}
	}
	done, _ := hw.done()
	if !done {
		if !k.Failed() {
			k.Fail("C10.returns", map[string]string{"event": event, "state": state, "reader_blocked": readerBlocked}, "after %s in state %s Config.Proxy has not returned (network drained, 60 s of simulated time passed, the other endpoint stays connected); h2 goroutines: %s", event, state, kernel.FormatSummary(kernel.CensusSummary(k.Census(), "martian/v3/h2.")))
		}
	} else {
		k.Probe("returned_" + strings.ReplaceAll(bounded, " ", "_"))
		if !hw.scSys.Closed() && state != "during_dial" { // (during the dial there is no upstream connection yet)
			k.Fail("C10.upstream_closed", map[string]string{"event": event}, "Config.Proxy returned after %s (state %s) but the upstream connection it dialled was not closed", event, state)
		}
		// The caller (handleLoop) closes the client connection once Proxy returns.
		hw.ccSys.Close()
		k.Drain()
		left := kernel.CensusSummary(k.Census(), "martian/v3/h2.")
		if len(left) > 0 {
			top := ""
			for f := range left {
				if top == "" || f < top {
					top = f
				}
			}
			if i := strings.Index(top, " ["); i > 0 {
				top = top[:i]
			}
			k.Fail("C10.no_goroutines", map[string]string{"top_frame": strings.TrimPrefix(top, "github.com/google/martian/v3/")}, "Config.Proxy returned after %s (state %s) and both connections are closed, yet goroutines of the session remain: %s", event, state, kernel.FormatSummary(left))
		}
	}
	hw.cleanup()
}

// c10IllegalSettings is a well-formed SETTINGS frame that sets SETTINGS_MAX_FRAME_SIZE to a value
// outside 16384..16777215 (a connection error, RFC 7540 section 6.5.2).
func c10IllegalSettings(k *kernel.K) []byte {
	v := []uint32{0, 1, 3, 100, 16383, 1 << 24}[k.W.Draw(6)]
	return []byte{0, 0, 6, 4, 0, 0, 0, 0, 0, 0, 5, byte(v >> 24), byte(v >> 16), byte(v >> 8), byte(v)}
}

func c10Garbage(k *kernel.K) []byte {
	switch k.W.Draw(3) {
	case 0: // a frame header announcing a WINDOW_UPDATE of the wrong length
		return []byte{0, 0, 3, 8, 0, 0, 0, 0, 1, 1, 2, 3}
	case 1: // CONTINUATION without a preceding HEADERS
		return []byte{0, 0, 1, 9, 4, 0, 0, 0, 1, 0x82}
	}
	// a SETTINGS frame whose length is not a multiple of six, followed by noise
	return append([]byte{0, 0, 5, 4, 0, 0, 0, 0, 0, 1, 2, 3, 4, 5}, k.W.Bytes(20)...)
}
