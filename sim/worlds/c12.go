package worlds

import (
	"encoding/json"
	"fmt"
	"net/http"
	"regexp"
	"strconv"
	"strings"
	"sync"

	"verifsim/kernel"
	"verifsim/simnet"
	"verifsim/wire"

	"github.com/google/martian/v3"
	mapi "github.com/google/martian/v3/api"
	_ "github.com/google/martian/v3/cookie"
	"github.com/google/martian/v3/fifo"
	_ "github.com/google/martian/v3/header"
	"github.com/google/martian/v3/martianhttp"
	_ "github.com/google/martian/v3/martianurl"
	_ "github.com/google/martian/v3/method"
	_ "github.com/google/martian/v3/port"
	"github.com/google/martian/v3/parse"
	_ "github.com/google/martian/v3/priority"
	_ "github.com/google/martian/v3/querystring"
	"github.com/google/martian/v3/servemux"
	_ "github.com/google/martian/v3/status"
	"github.com/google/martian/v3/verify"
)

// World A'' — proxy + configuration API, wired as cmd/proxy does (servemux filter -> api.Forwarder,
// martianhttp.Modifier, verify and reset handlers on a real http.Server over a simnet listener).
// C12 — a JSON modifier configuration means what its tree says, for every tree.

func init() {
	register(&World{
		Name: "C12", Prop: "C12", Run: runC12, MaxSteps: 40000,
		Real: []string{"parse.FromJSON + registry", "fifo.Group, priority.Group, filter.Filter", "url/header/querystring/method/cookie filters (JSON constructors and matchers)", "martianhttp.Modifier (POST /configure, swap under lock)", "servemux.Filter + api.Forwarder", "martian.Proxy, net/http server for the API"},
		Stub: append([]string{"probe leaf verif.Probe registered through parse.Register", "reference interpreter of configuration trees", "raw scripted traffic and admin clients, raw origin"}, commonStub...),
	})
	parse.Register("verif.Probe", probeFromJSON)
}

// ---- the probe leaf ------------------------------------------------------------------------

type probeMod struct {
	id   int
	fail bool
}

func (p *probeMod) ModifyRequest(req *http.Request) error {
	req.Header.Add("X-Trace", strconv.Itoa(p.id))
	if p.fail {
		return fmt.Errorf("probe-%d-failed", p.id)
	}
	return nil
}
func (p *probeMod) ModifyResponse(res *http.Response) error {
	res.Header.Add("X-Trace", strconv.Itoa(p.id))
	if p.fail {
		return fmt.Errorf("probe-%d-failed", p.id)
	}
	return nil
}

func probeFromJSON(b []byte) (*parse.Result, error) {
	var msg struct {
		ID    int                  `json:"id"`
		Fail  bool                 `json:"fail"`
		Scope []parse.ModifierType `json:"scope"`
	}
	if err := json.Unmarshal(b, &msg); err != nil {
		return nil, err
	}
	return parse.NewResult(&probeMod{id: msg.ID, fail: msg.Fail}, msg.Scope)
}

// ---- configuration trees and their reference semantics --------------------------------------

type cnode struct {
	Kind      string // probe | fifo | priority | filter
	ID        int
	Fail      bool
	HasScope  bool
	Scope     []string
	Children  []*cnode
	Prio      []int64
	Aggregate bool
	FKind     string // url_host | url_query | header | querystring | method | cookie
	FVal      string
	Then      *cnode
	Else      *cnode
}

// cmsg is what the conditions look at.
type cmsg struct {
	method  string
	host    string
	query   string // raw query
	qk      string // value of query parameter k ("" if absent)
	reqCond string
	reqCk   string
	resCond string
	resCk   string
}

func (n *cnode) applies(phase string) bool {
	if !n.HasScope {
		return true
	}
	for _, s := range n.Scope {
		if s == phase {
			return true
		}
	}
	return false
}

func (n *cnode) cond(phase string, m *cmsg) bool {
	switch n.FKind {
	case "port":
		// the exchanges' URLs name no port: http, so 80
		return n.FVal == "80"
	case "header_regex":
		// documented to look at the REQUEST's header in both phases
		ok, _ := regexp.MatchString(n.FVal, m.reqCond)
		return m.reqCond != "" && ok
	case "url_host":
		return m.host == n.FVal
	case "url_query":
		return m.query == n.FVal
	case "querystring":
		return m.qk == n.FVal
	case "method":
		return strings.EqualFold(m.method, n.FVal)
	case "header":
		if phase == "request" {
			return m.reqCond == n.FVal
		}
		return m.resCond == n.FVal
	case "cookie":
		if phase == "request" {
			return m.reqCk == n.FVal
		}
		return m.resCk == n.FVal
	}
	return false
}

// eval is the reference interpreter: depth first; FIFO in listed order; priority descending with
// the later-listed first among equals; condition / else; scope projection at every node; the
// first error stops a group unless it aggregates, then every error is reported once.
func (n *cnode) eval(phase string, m *cmsg) (trace []int, errs []string) {
	if n == nil || !n.applies(phase) {
		return nil, nil
	}
	switch n.Kind {
	case "probe":
		trace = []int{n.ID}
		if n.Fail {
			errs = []string{fmt.Sprintf("probe-%d-failed", n.ID)}
		}
	case "fifo":
		for _, c := range n.Children {
			t, e := c.eval(phase, m)
			trace = append(trace, t...)
			if len(e) > 0 {
				if n.Aggregate {
					errs = append(errs, e...)
					continue
				}
				return trace, e
			}
		}
	case "priority":
		var order []int
		for i := range n.Children {
			pos := len(order)
			for j, o := range order {
				if n.Prio[i] >= n.Prio[o] {
					pos = j
					break
				}
			}
			order = append(order, 0)
			copy(order[pos+1:], order[pos:])
			order[pos] = i
		}
		for _, i := range order {
			t, e := n.Children[i].eval(phase, m)
			trace = append(trace, t...)
			if len(e) > 0 {
				return trace, e
			}
		}
	case "filter":
		if n.cond(phase, m) {
			return n.Then.eval(phase, m)
		}
		return n.Else.eval(phase, m)
	}
	return trace, errs
}

func (n *cnode) scopeJSON() string {
	if !n.HasScope {
		return ""
	}
	qs := make([]string, len(n.Scope))
	for i, s := range n.Scope {
		qs[i] = strconv.Quote(s)
	}
	return `,"scope":[` + strings.Join(qs, ",") + `]`
}

func (n *cnode) JSON() string {
	switch n.Kind {
	case "probe":
		return fmt.Sprintf(`{"verif.Probe":{"id":%d,"fail":%v%s}}`, n.ID, n.Fail, n.scopeJSON())
	case "fifo":
		var cs []string
		for _, c := range n.Children {
			cs = append(cs, c.JSON())
		}
		return fmt.Sprintf(`{"fifo.Group":{"aggregateErrors":%v,"modifiers":[%s]%s}}`, n.Aggregate, strings.Join(cs, ","), n.scopeJSON())
	case "priority":
		var cs []string
		for i, c := range n.Children {
			cs = append(cs, fmt.Sprintf(`{"priority":%d,"modifier":%s}`, n.Prio[i], c.JSON()))
		}
		return fmt.Sprintf(`{"priority.Group":{"modifiers":[%s]%s}}`, strings.Join(cs, ","), n.scopeJSON())
	case "filter":
		var name, params string
		switch n.FKind {
		case "url_host":
			name, params = "url.Filter", fmt.Sprintf(`"host":%q`, n.FVal)
		case "url_query":
			name, params = "url.Filter", fmt.Sprintf(`"query":%q`, n.FVal)
		case "header":
			name, params = "header.Filter", fmt.Sprintf(`"name":"X-Cond","value":%q`, n.FVal)
		case "querystring":
			name, params = "querystring.Filter", fmt.Sprintf(`"name":"k","value":%q`, n.FVal)
		case "method":
			name, params = "method.Filter", fmt.Sprintf(`"method":%q`, n.FVal)
		case "cookie":
			name, params = "cookie.Filter", fmt.Sprintf(`"name":"ck","value":%q`, n.FVal)
		case "port":
			name, params = "port.Filter", fmt.Sprintf(`"port":%s`, n.FVal)
		case "header_regex":
			name, params = "header.RegexFilter", fmt.Sprintf(`"header":"X-Cond","regex":%q`, n.FVal)
		}
		els := ""
		if n.Else != nil {
			els = `,"else":` + n.Else.JSON()
		}
		return fmt.Sprintf(`{%q:{%s,"modifier":%s%s%s}}`, name, params, n.Then.JSON(), els, n.scopeJSON())
	}
	return "{}"
}

func genScope(k *kernel.K, n *cnode) {
	switch k.W.Pick([]int{6, 2, 2, 1, 1}) {
	case 1:
		n.HasScope, n.Scope = true, []string{"request"}
	case 2:
		n.HasScope, n.Scope = true, []string{"response"}
	case 3:
		n.HasScope, n.Scope = true, []string{"request", "response"}
	case 4:
		n.HasScope, n.Scope = true, []string{}
	}
}

func genTree(k *kernel.K, depth int, nextID *int) *cnode {
	w := k.W
	kind := "probe"
	if depth > 0 {
		kind = []string{"probe", "fifo", "priority", "filter"}[w.Pick([]int{3, 3, 2, 4})]
	}
	n := &cnode{Kind: kind}
	genScope(k, n)
	switch kind {
	case "probe":
		*nextID++
		n.ID = *nextID
		n.Fail = w.Chance(1, 6)
	case "fifo", "priority":
		n.Aggregate = kind == "fifo" && w.Chance(1, 3)
		for i, m := 0, w.Range(0, 4); i < m; i++ {
			n.Children = append(n.Children, genTree(k, depth-1, nextID))
			n.Prio = append(n.Prio, int64(w.Draw(3)))
		}
	case "filter":
		n.FKind = []string{"url_host", "url_query", "header", "querystring", "method", "cookie", "port", "header_regex"}[w.Draw(8)]
		switch n.FKind {
		case "port":
			n.FVal = []string{"80", "8080"}[w.Draw(2)]
		case "header_regex":
			n.FVal = []string{"^a$", "^[bc]$"}[w.Draw(2)]
		case "url_host":
			n.FVal = []string{"origin-a.test", "other.test"}[w.Draw(2)]
		case "url_query":
			n.FVal = []string{"k=v", "k=w"}[w.Draw(2)]
		case "header":
			n.FVal = []string{"a", "b"}[w.Draw(2)]
		case "querystring":
			n.FVal = []string{"v", "w"}[w.Draw(2)]
		case "method":
			n.FVal = []string{"POST", "get"}[w.Draw(2)]
		case "cookie":
			n.FVal = []string{"1", "2"}[w.Draw(2)]
		}
		n.Then = genTree(k, depth-1, nextID)
		if w.Chance(1, 2) {
			n.Else = genTree(k, depth-1, nextID)
		}
	}
	return n
}

// ---- the wired proxy -------------------------------------------------------------------------

type apiWorld struct {
	k      *kernel.K
	n      *simnet.Net
	proxy  *martian.Proxy
	l      *simnet.Listener
	m      *martianhttp.Modifier
	srv    *http.Server
	mu     sync.Mutex
	phases map[string]int // "<id>/request" -> step at which the phase reached the user configuration
}

func newAPIWorld(k *kernel.K) *apiWorld {
	aw := &apiWorld{k: k, n: simnet.New(k), phases: map[string]int{}}
	n := aw.n
	n.DefaultPolicy = simnet.ChunkPolicy(k.W.Pick([]int{5, 2, 1, 0, 0, 2}))
	n.TCPLikeConns = k.W.Chance(1, 2)
	aw.proxy, aw.l = newProxyA(k, n)
	aw.m = martianhttp.NewModifier()
	mux := http.NewServeMux()
	mux.Handle("martian.proxy/configure", aw.m)
	vh := verify.NewHandler()
	vh.SetRequestVerifier(aw.m)
	vh.SetResponseVerifier(aw.m)
	mux.Handle("martian.proxy/verify", vh)
	rh := verify.NewResetHandler()
	rh.SetRequestVerifier(aw.m)
	rh.SetResponseVerifier(aw.m)
	mux.Handle("martian.proxy/verify/reset", rh)
	// the handlers are registered a second time under the API server's own host (ServeMux ignores ports)
	mux.Handle("10.0.0.9/configure", aw.m)
	mux.Handle("10.0.0.9/verify", vh)
	mux.Handle("10.0.0.9/verify/reset", rh)
	apiL := n.Listen("10.0.0.9:8181")
	aw.srv = &http.Server{Handler: mux}
	go aw.srv.Serve(apiL)
	topg := fifo.NewGroup()
	apif := servemux.NewFilter(mux)
	apif.SetRequestModifier(mapi.NewForwarder("10.0.0.9", 8181))
	topg.AddRequestModifier(apif)
	rec := func(phase string) func(id int) {
		return func(id int) {
			aw.mu.Lock()
			aw.phases[fmt.Sprintf("%d/%s", id, phase)] = k.StepN
			aw.mu.Unlock()
		}
	}
	recReq, recRes := rec("request"), rec("response")
	topg.AddRequestModifier(martian.RequestModifierFunc(func(req *http.Request) error {
		recReq(exchangeID(req.URL.Path))
		return nil
	}))
	recReqEnd, recResEnd := rec("request_end"), rec("response_end")
	// aw.m itself, wrapped only to learn when the phase has left the user configuration
	topg.AddRequestModifier(martian.RequestModifierFunc(func(req *http.Request) error {
		err := aw.m.ModifyRequest(req)
		recReqEnd(exchangeID(req.URL.Path))
		return err
	}))
	topg.AddResponseModifier(martian.ResponseModifierFunc(func(res *http.Response) error {
		recRes(exchangeID(res.Request.URL.Path))
		return nil
	}))
	topg.AddResponseModifier(martian.ResponseModifierFunc(func(res *http.Response) error {
		err := aw.m.ModifyResponse(res)
		recResEnd(exchangeID(res.Request.URL.Path))
		return err
	}))
	aw.proxy.SetRequestModifier(topg)
	aw.proxy.SetResponseModifier(topg)
	return aw
}

func (aw *apiWorld) phaseStep(id int, phase string) (int, bool) {
	aw.mu.Lock()
	defer aw.mu.Unlock()
	s, ok := aw.phases[fmt.Sprintf("%d/%s", id, phase)]
	return s, ok
}

func (aw *apiWorld) cleanup() {
	aw.srv.Close()
	aw.n.Shutdown()
	aw.k.Settle()
}

func apiReq(id int, method, path, body string) *ReqSpec {
	r := &ReqSpec{ID: id, Method: method, Abs: true, Host: "martian.proxy", Path: path}
	if body != "" || method == "POST" {
		r.Framing = "cl"
		r.Body = []byte(body)
		r.Header = []wire.HF{{Name: "Content-Type", Value: "application/json"}}
	}
	return r
}

type c12Conf struct {
	tree    *cnode // nil for invalid bodies
	body    string
	invalid string // kind of invalidity, "" if valid
	item    *ClientItem
	idx     int
}

type c12Ex struct {
	id   int
	msg  *cmsg
	spec *ReqSpec
	resp *RespSpec
	item *ClientItem
}

func traceOf(m *wire.Msg) []int {
	var out []int
	for _, v := range m.Get("X-Trace") {
		for _, p := range strings.Split(v, ",") {
			if n, err := strconv.Atoi(strings.TrimSpace(p)); err == nil {
				out = append(out, n)
			}
		}
	}
	return out
}

// warningErrors extracts the error messages carried by martian's Warning headers.
func warningErrors(m *wire.Msg) []string {
	var out []string
	for _, v := range m.Get("Warning") {
		// 199 "martian" "<quoted message>" "<date>"
		rest := strings.TrimPrefix(v, `199 "martian" `)
		if rest == v {
			continue
		}
		msg, err := strconv.QuotedPrefix(rest)
		if err != nil {
			continue
		}
		if s, err := strconv.Unquote(msg); err == nil {
			out = append(out, strings.Split(s, "\n")...)
		}
	}
	return out
}

func runC12(k *kernel.K) {
	w := k.W
	aw := newAPIWorld(k)
	n := aw.n
	origin := NewOrigin(k, n, "origin-a.test:80", nil)
	exs := map[int]*c12Ex{}
	origin.Plan = func(oc *OConn, req *wire.Msg) *Reply {
		e := exs[exchangeID(req.Target)]
		if e == nil {
			return &Reply{Raw: []byte("HTTP/1.1 500 Unplanned\r\nContent-Length: 0\r\n\r\n")}
		}
		return &Reply{Raw: e.resp.Encode(req.Method)}
	}
	traffic := NewClient(k, aw.l, "traffic", "10.1.0.2")
	admin := NewClient(k, aw.l, "admin", "10.1.0.3")
	// seam R8: goroutines can be parked right before a mutex acquisition in the configuration
	// holder and the groups, e.g. an exchange between entering the holder and reading it
	k.AddSource(k.GateSource)
	ly := k.LockYield()
	martianhttp.VerifYieldHook, fifo.VerifYieldHook, parse.VerifYieldHook = ly, ly, ly
	defer func() { martianhttp.VerifYieldHook, fifo.VerifYieldHook, parse.VerifYieldHook = nil, nil, nil }()
	// Sometimes the embedding program registers one more modifier type while the proxy is being
	// configured (parse.Register is exported and takes the registry's lock): at a tape-chosen
	// moment, on its own goroutine.
	registered, registerDone := false, false
	if w.Chance(1, 4) {
		k.AddSource(func(add func(kernel.Action)) {
			if !registered && !k.Draining {
				add(kernel.Action{Key: "embedder registers a modifier type", W: 2, Class: kernel.Actor, Do: func() {
					registered = true
					k.Probe("register_while_configuring")
					go func() {
						parse.Register(fmt.Sprintf("verif.Late%d", k.StepN), func(b []byte) (*parse.Result, error) {
							return nil, fmt.Errorf("not used")
						})
						registerDone = true
					}()
				}})
			}
		})
	}

	// Script: configurations (valid and invalid) and exchanges.
	nextProbe := 0
	var confs []*c12Conf
	nconf := w.Range(1, 4)
	for i := 0; i < nconf; i++ {
		c := &c12Conf{idx: i}
		tree := genTree(k, w.Range(1, 4), &nextProbe)
		c.body = tree.JSON()
		switch w.Pick([]int{6, 1, 1, 1, 1, 1}) {
		case 0:
			c.tree = tree
		case 1:
			c.invalid = "unknown_modifier"
			c.body = strings.Replace(c.body, `"verif.Probe"`, `"nosuch.Modifier"`, 1)
			if !strings.Contains(c.body, "nosuch.Modifier") {
				c.body = `{"fifo.Group":{"modifiers":[{"nosuch.Modifier":{}}]}}`
			}
		case 2:
			c.invalid = "unsupported_scope"
			c.body = fmt.Sprintf(`{"fifo.Group":{"modifiers":[%s,{"status.Modifier":{"statusCode":201,"scope":["request"]}}]}}`, tree.JSON())
		case 3:
			c.invalid = "two_keys"
			c.body = fmt.Sprintf(`{"verif.Probe":{"id":990},"fifo.Group":{"modifiers":[%s]}}`, tree.JSON())
		case 4:
			c.invalid = "malformed_json"
			c.body = c.body[:len(c.body)-1-w.Draw(len(c.body)/2)]
		case 5:
			c.invalid = "invalid_scope_name"
			c.body = fmt.Sprintf(`{"fifo.Group":{"scope":["reqest"],"modifiers":[%s]}}`, tree.JSON())
		}
		c.item = admin.Add(apiReq(900+i, "POST", "/configure", c.body))
		confs = append(confs, c)
		k.Note("config %d (%s): %s", i, map[bool]string{true: "valid", false: c.invalid}[c.invalid == ""], clipStr(c.body, 300))
	}
	nex := w.Range(1, 6)
	for i := 0; i < nex; i++ {
		id := i + 1
		m := &cmsg{method: []string{"GET", "POST"}[w.Draw(2)], host: "origin-a.test", reqCond: []string{"a", "b", ""}[w.Draw(3)], reqCk: []string{"1", "2", ""}[w.Draw(3)], resCond: []string{"a", "b", ""}[w.Draw(3)], resCk: []string{"1", "2", ""}[w.Draw(3)]}
		switch w.Draw(3) {
		case 0:
			m.query, m.qk = "k=v", "v"
		case 1:
			m.query, m.qk = "k=w", "w"
		}
		r := &ReqSpec{ID: id, Method: m.method, Abs: true, Host: "origin-a.test", Path: fmt.Sprintf("/x%d/c", id)}
		if m.query != "" {
			r.HasQ, r.Query = true, m.query
		}
		if m.reqCond != "" {
			r.Header = append(r.Header, wire.HF{Name: "X-Cond", Value: m.reqCond})
		}
		if m.reqCk != "" {
			r.Header = append(r.Header, wire.HF{Name: "Cookie", Value: "ck=" + m.reqCk})
		}
		if m.method == "POST" {
			r.Framing, r.Body = "cl", bodyBytes(id, 'q', 20)
		}
		rs := &RespSpec{Status: 200, Framing: "cl", Body: bodyBytes(id, 'r', 30)}
		if m.resCond != "" {
			rs.Header = append(rs.Header, wire.HF{Name: "X-Cond", Value: m.resCond})
		}
		if m.resCk != "" {
			rs.Header = append(rs.Header, wire.HF{Name: "Set-Cookie", Value: "ck=" + m.resCk})
		}
		e := &c12Ex{id: id, msg: m, spec: r, resp: rs}
		e.item = traffic.Add(r)
		exs[id] = e
		k.Note("exchange #%d %s %s cond=%q ck=%q -> cond=%q ck=%q", id, m.method, r.Target(), m.reqCond, m.reqCk, m.resCond, m.resCk)
	}
	k.StateFn = func() string {
		return fmt.Sprintf("%s|%s|%s|%s", n.Fingerprint(), traffic.State(), admin.State(), origin.State())
	}
	k.RunUntil(func() bool { return traffic.Done() && admin.Done() && len(k.Parked()) == 0 })
	k.Drain()
	k.ReleaseAll()
	k.Settle()
	if k.Inconclusive != "" {
		aw.cleanup()
		return
	}
	// ---- oracle ----
	if registered && !registerDone {
		k.Fail("C12.reject_whole", map[string]string{"kind": "no_answer", "with": "concurrent_register"}, "parse.Register called while configurations were being posted has not returned at quiescence; goroutines waiting for a mutex: %d", len(k.MutexBlocked()))
		aw.cleanup()
		return
	}
	afin := admin.P.Final()
	var accepted []*c12Conf
	for i, c := range confs {
		if i >= len(afin) {
			k.Fail("C12.reject_whole", map[string]string{"kind": "no_answer"}, "configuration %d got no answer from the API (admin responses %d, parse error %v)", i, len(afin), admin.P.Err)
			aw.cleanup()
			return
		}
		st := afin[i].Status
		if c.invalid == "" {
			if st != 200 {
				k.Fail("C12.accept_replaces", nil, "valid configuration %d was answered with status %d: %s; body %s", i, st, clipStr(string(afin[i].Body), 200), clipStr(c.body, 300))
			} else {
				accepted = append(accepted, c)
			}
		} else {
			k.Probe("invalid_" + c.invalid)
			if st < 400 || st > 499 {
				k.Fail("C12.reject_whole", map[string]string{"kind": c.invalid}, "invalid configuration %d (%s) was answered with status %d, want 4xx; body %s", i, c.invalid, st, clipStr(c.body, 300))
			}
		}
	}
	tfin := traffic.P.Final()
	oreqs := map[int]*wire.Msg{}
	for _, m := range origin.Requests() {
		oreqs[exchangeID(m.Target)] = m
	}
	for i, it := range traffic.Script {
		e := exs[it.Spec.ID]
		for _, phase := range []string{"request", "response"} {
			step, ok := aw.phaseStep(e.id, phase)
			if !ok {
				continue
			}
			// configurations that may be in force when this phase reached the user configuration
			// (a goroutine can be parked between entering the configuration holder and reading it,
			// seam R8: the phase spans [step, end])
			end, okEnd := aw.phaseStep(e.id, phase+"_end")
			if !okEnd {
				end = 1 << 30
			}
			var allowed []*c12Conf
			var definite *c12Conf
			for _, c := range accepted {
				done := admin.RespStep[c.idx]
				if done < step {
					definite = c
				} else if c.item.SentStep <= end {
					allowed = append(allowed, c)
				}
			}
			allowed = append(allowed, definite) // may be nil: nothing configured yet
			var got []int
			var gotErrs []string
			var seen *wire.Msg
			if phase == "request" {
				seen = oreqs[e.id]
			} else if i < len(tfin) {
				seen = tfin[i]
			}
			if seen == nil {
				dbg := ""
				for _, g := range k.Census() {
					if g.Has("martian") || g.Has("net/http") {
						fr := g.Frames
						if len(fr) > 9 {
							fr = fr[:9]
						}
						dbg += fmt.Sprintf(" || g%d [%s] %s", g.ID, g.State, strings.Join(fr, " < "))
					}
				}
				k.Fail("C12.trace_"+phase, nil, "exchange #%d: no %s observed at the far end; traffic client state %s; goroutines:%s", e.id, phase, traffic.State(), dbg)
				continue
			}
			got, gotErrs = traceOf(seen), warningErrors(seen)
			match := false
			var wants []string
			for _, c := range allowed {
				var wt []int
				var we []string
				if c != nil {
					wt, we = c.tree.eval(phase, e.msg)
				}
				wants = append(wants, fmt.Sprintf("%v errors %v", wt, we))
				if fmt.Sprint(wt) == fmt.Sprint(got) && fmt.Sprint(we) == fmt.Sprint(gotErrs) {
					match = true
				}
			}
			if !match {
				which := "latest_accepted"
				if len(allowed) > 1 {
					which = "overlapping_reconfiguration"
				}
				active := "none"
				if definite != nil {
					active = clipStr(definite.body, 400)
				}
				// decide whether the trace or only the reported errors differ
				traceOK := false
				for _, c := range allowed {
					var wt []int
					if c != nil {
						wt, _ = c.tree.eval(phase, e.msg)
					}
					if fmt.Sprint(wt) == fmt.Sprint(got) {
						traceOK = true
					}
				}
				id := "C12.trace_" + phase
				params := map[string]string{"config": which}
				if traceOK {
					id = "C12.errors_reported"
					params = map[string]string{"phase": phase}
				}
				k.Fail(id, params, "exchange #%d (%s %s cond=%q ck=%q / response cond=%q ck=%q) %s phase at step %d: observed trace %v errors %v; the reference interpreter gives %v for the configuration(s) that can be in force: %s", e.id, e.msg.method, e.spec.Target(), e.msg.reqCond, e.msg.reqCk, e.msg.resCond, e.msg.resCk, phase, step, got, gotErrs, wants, active)
			}
			if len(allowed) > 1 {
				k.Probe("phase_during_reconfiguration")
			}
		}
	}
	if len(accepted) > 1 {
		k.Probe("config_replaced")
	}
	// Second phase, half of the runs: two administrators post a valid configuration each at the
	// same time (two connections; the tape parks them before the lock acquisitions of the
	// configuration holder, seam R8). Whichever wins, it "replaces completely": an exchange sent
	// after both were answered is shaped, in its request and in its response, by one of the two.
	if !k.Failed() && w.Chance(1, 2) && traffic.Alive() {
		k.Probe("two_configurations_posted_at_once")
		var pair []*c12Conf
		var admins []*Client
		for i := 0; i < 2; i++ {
			c := &c12Conf{idx: 100 + i, tree: genTree(k, w.Range(1, 3), &nextProbe)}
			c.body = c.tree.JSON()
			ad := NewClient(k, aw.l, fmt.Sprintf("admin%d", i+2), fmt.Sprintf("10.1.0.%d", 4+i))
			c.item = ad.Add(apiReq(950+i, "POST", "/configure", c.body))
			pair, admins = append(pair, c), append(admins, ad)
			k.Note("concurrent config %d: %s", i, clipStr(c.body, 300))
		}
		k.RunUntil(func() bool { return admins[0].Done() && admins[1].Done() && len(k.Parked()) == 0 })
		k.Drain()
		k.ReleaseAll()
		k.Settle()
		ok := true
		for i, ad := range admins {
			if fin := ad.P.Final(); len(fin) != 1 || fin[0].Status != 200 {
				ok = false
				st := -1
				if len(fin) > 0 {
					st = fin[0].Status
				}
				k.Fail("C12.accept_replaces", map[string]string{"posted": "concurrently"}, "valid configuration posted at the same time as another one was answered with status %d (responses %d): %s", st, len(fin), clipStr(pair[i].body, 300))
			}
		}
		if ok {
			m := &cmsg{method: "GET", host: "origin-a.test", reqCond: []string{"a", "b", ""}[w.Draw(3)], reqCk: []string{"1", "2", ""}[w.Draw(3)], resCond: []string{"a", "b", ""}[w.Draw(3)], resCk: []string{"1", "2", ""}[w.Draw(3)], query: "k=v", qk: "v"}
			r := &ReqSpec{ID: 60, Method: "GET", Abs: true, Host: "origin-a.test", Path: "/x60/c", HasQ: true, Query: "k=v"}
			if m.reqCond != "" {
				r.Header = append(r.Header, wire.HF{Name: "X-Cond", Value: m.reqCond})
			}
			if m.reqCk != "" {
				r.Header = append(r.Header, wire.HF{Name: "Cookie", Value: "ck=" + m.reqCk})
			}
			rs := &RespSpec{Status: 200, Framing: "cl", Body: bodyBytes(60, 'r', 30)}
			if m.resCond != "" {
				rs.Header = append(rs.Header, wire.HF{Name: "X-Cond", Value: m.resCond})
			}
			if m.resCk != "" {
				rs.Header = append(rs.Header, wire.HF{Name: "Set-Cookie", Value: "ck=" + m.resCk})
			}
			exs[60] = &c12Ex{id: 60, msg: m, spec: r, resp: rs}
			before := len(traffic.P.Final())
			traffic.Add(r)
			k.RunUntil(func() bool { return traffic.Done() && len(k.Parked()) == 0 })
			k.Drain()
			k.ReleaseAll()
			k.Settle()
			var oreq *wire.Msg
			for _, om := range origin.Requests() {
				if exchangeID(om.Target) == 60 {
					oreq = om
				}
			}
			tf := traffic.P.Final()
			if oreq != nil && len(tf) == before+1 {
				gotReq := fmt.Sprintf("%v errors %v", traceOf(oreq), warningErrors(oreq))
				gotRes := fmt.Sprintf("%v errors %v", traceOf(tf[before]), warningErrors(tf[before]))
				match := false
				var wants []string
				for _, c := range pair {
					qt, qe := c.tree.eval("request", m)
					st, se := c.tree.eval("response", m)
					wq, ws := fmt.Sprintf("%v errors %v", qt, qe), fmt.Sprintf("%v errors %v", st, se)
					wants = append(wants, "request "+wq+" / response "+ws)
					if wq == gotReq && ws == gotRes {
						match = true
					}
				}
				if !match {
					k.Fail("C12.accept_replaces", map[string]string{"posted": "concurrently", "halves": "no_single_configuration"}, "two valid configurations were posted at the same time and both answered with 200; an exchange sent afterwards shows request trace %s and response trace %s, which no single one of the two explains: %v", gotReq, gotRes, wants)
				}
			} else {
				k.Fail("C12.trace_request", map[string]string{"config": "after_concurrent_posts"}, "the exchange sent after two concurrent reconfigurations did not complete (origin saw it: %v, responses %d of %d)", oreq != nil, len(tf), before+1)
			}
		}
		for _, ad := range admins {
			ad.CloseNow()
		}
	}
	aw.cleanup()
}

func clipStr(s string, n int) string {
	if len(s) > n {
		return s[:n] + "..."
	}
	return s
}
