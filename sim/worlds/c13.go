package worlds

import (
	"encoding/json"
	"fmt"
	"net/http"
	"regexp"
	"sort"
	"strings"

	"verifsim/kernel"
	"verifsim/wire"

	"github.com/google/martian/v3"
	"github.com/google/martian/v3/fifo"
	"github.com/google/martian/v3/martianhttp"
	"github.com/google/martian/v3/parse"

	_ "github.com/google/martian/v3/failure"
	_ "github.com/google/martian/v3/pingback"
)

// C13 — verification reports exactly the unmet expectations since the last reset.
// Same wiring as C12. The configuration is a tree of FIFO groups and filters (both branches)
// whose leaves are the registered verifiers, each with a parameter that makes its messages
// attributable. Traffic, GET /verify and POST /verify/reset are interleaved by the controller;
// the model says which failures a query must, may and must not return.

func init() {
	register(&World{
		Name: "C13", Prop: "C13", Run: runC13, MaxSteps: 40000,
		Real: []string{"status/header/method/url/querystring/failure/pingback verifiers", "filter.Filter and fifo.Group verification walks and resets", "martianhttp.Modifier (Verify*/Reset*)", "verify.Handler / verify.ResetHandler", "martian.MultiError", "servemux.Filter + api.Forwarder, martian.Proxy, net/http API server"},
		Stub: append([]string{"reference model of evaluated-and-unmet expectations", "raw scripted traffic and admin clients, raw origin"}, commonStub...),
	})
}

// gateVerifier is a harness leaf: it records nothing, but a verification walk that visits it
// parks until the controller lets it continue, so that traffic can run in the middle of a query.
type gateVerifier struct{ id int }

var c13GateHook func(id int, side string)

func (g *gateVerifier) ModifyRequest(*http.Request) error   { return nil }
func (g *gateVerifier) ModifyResponse(*http.Response) error { return nil }
func (g *gateVerifier) VerifyRequests() error {
	if h := c13GateHook; h != nil {
		h(g.id, "requests")
	}
	return nil
}
func (g *gateVerifier) VerifyResponses() error {
	if h := c13GateHook; h != nil {
		h(g.id, "responses")
	}
	return nil
}
func (g *gateVerifier) ResetRequestVerifications()  {}
func (g *gateVerifier) ResetResponseVerifications() {}

func init() {
	parse.Register("verif.GateVerifier", func(b []byte) (*parse.Result, error) {
		var msg struct {
			ID int `json:"id"`
		}
		if err := json.Unmarshal(b, &msg); err != nil {
			return nil, err
		}
		return parse.NewResult(&gateVerifier{id: msg.ID}, nil)
	})
}

type vleaf struct {
	kind     string // status | header | method | url | querystring | failure | pingback
	tag      string // unique token that appears in this leaf's messages
	want     string
	scope    []string
	hasScope bool
	branch   string // then | else | group (position under the nearest filter)
}

// c13Node extends the tree with verifier leaves.
type c13Node struct {
	kind     string // fifo | filter | leaf
	children []*c13Node
	fkind    string
	fval     string
	then     *c13Node
	els      *c13Node
	leaf     *vleaf
	hasScope bool
	scope    []string
}

func (n *c13Node) applies(phase string) bool {
	hs, sc := n.hasScope, n.scope
	if n.kind == "leaf" {
		hs, sc = n.leaf.hasScope, n.leaf.scope
	}
	if !hs {
		return true
	}
	for _, s := range sc {
		if s == phase {
			return true
		}
	}
	return false
}

func scopeStr(has bool, sc []string) string {
	if !has {
		return ""
	}
	qs := make([]string, len(sc))
	for i, s := range sc {
		qs[i] = fmt.Sprintf("%q", s)
	}
	return `,"scope":[` + strings.Join(qs, ",") + `]`
}

func (n *c13Node) JSON() string {
	switch n.kind {
	case "fifo":
		var cs []string
		for _, c := range n.children {
			cs = append(cs, c.JSON())
		}
		return fmt.Sprintf(`{"fifo.Group":{"modifiers":[%s]%s}}`, strings.Join(cs, ","), scopeStr(n.hasScope, n.scope))
	case "filter":
		var name, params string
		switch n.fkind {
		case "url_query":
			name, params = "url.Filter", fmt.Sprintf(`"query":%q`, n.fval)
		case "header":
			name, params = "header.Filter", fmt.Sprintf(`"name":"X-Cond","value":%q`, n.fval)
		case "querystring":
			name, params = "querystring.Filter", fmt.Sprintf(`"name":"k","value":%q`, n.fval)
		case "method":
			name, params = "method.Filter", fmt.Sprintf(`"method":%q`, n.fval)
		case "port":
			name, params = "port.Filter", fmt.Sprintf(`"port":%s`, n.fval)
		case "header_regex":
			name, params = "header.RegexFilter", fmt.Sprintf(`"header":"X-Cond","regex":%q`, n.fval)
		}
		els := ""
		if n.els != nil {
			els = `,"else":` + n.els.JSON()
		}
		return fmt.Sprintf(`{%q:{%s,"modifier":%s%s%s}}`, name, params, n.then.JSON(), els, scopeStr(n.hasScope, n.scope))
	}
	l := n.leaf
	sc := scopeStr(l.hasScope, l.scope)
	switch l.kind {
	case "status":
		return fmt.Sprintf(`{"status.Verifier":{"statusCode":%s%s}}`, l.want, sc)
	case "header":
		return fmt.Sprintf(`{"header.Verifier":{"name":%q,"value":%q%s}}`, l.tag, l.want, sc)
	case "method":
		return fmt.Sprintf(`{"method.Verifier":{"method":%q%s}}`, l.want, sc)
	case "url":
		return fmt.Sprintf(`{"url.Verifier":{"host":%q%s}}`, l.want, sc)
	case "querystring":
		return fmt.Sprintf(`{"querystring.Verifier":{"name":%q,"value":%q%s}}`, l.tag, l.want, sc)
	case "failure":
		return fmt.Sprintf(`{"failure.Verifier":{"message":%q%s}}`, l.tag, sc)
	case "pingback":
		return fmt.Sprintf(`{"pingback.Verifier":{"path":%q%s}}`, l.want, sc)
	case "gate":
		return fmt.Sprintf(`{"verif.GateVerifier":{"id":%s}}`, l.want)
	}
	return "{}"
}

// c13Msg is what conditions and expectations look at.
type c13Msg struct {
	id      int
	method  string
	host    string
	path    string
	query   string
	qk      string
	params  map[string]string // query parameters
	reqCond string
	resCond string
	reqHdr  map[string]string // X-V<n> request headers present
	resHdr  map[string]string
	status  int
}

func (n *c13Node) cond(phase string, m *c13Msg) bool {
	switch n.fkind {
	case "port":
		return n.fval == "80" // the exchanges' URLs are http and name no port
	case "header_regex":
		ok, _ := regexp.MatchString(n.fval, m.reqCond) // the REQUEST's header, in both phases
		return m.reqCond != "" && ok
	case "url_query":
		return m.query == n.fval
	case "querystring":
		return m.qk == n.fval
	case "method":
		return strings.EqualFold(m.method, n.fval)
	case "header":
		if phase == "request" {
			return m.reqCond == n.fval
		}
		return m.resCond == n.fval
	}
	return false
}

// unmet reports whether the leaf's expectation is evaluated on this phase and not met.
func (l *vleaf) unmet(phase string, m *c13Msg) bool {
	switch l.kind {
	case "status":
		return phase == "response" && fmt.Sprint(m.status) != l.want
	case "header":
		hs := m.reqHdr
		if phase == "response" {
			hs = m.resHdr
		}
		v, ok := hs[l.tag]
		return !ok || (l.want != "" && v != l.want)
	case "method":
		return phase == "request" && m.method != l.want
	case "url":
		return phase == "request" && m.host != l.want
	case "querystring":
		if phase != "request" {
			return false
		}
		v, ok := m.params[l.tag]
		return !ok || (l.want != "" && v != l.want)
	case "failure":
		return phase == "request"
	}
	return false
}

// evaluated lists the leaves that evaluate the message on this phase.
func (n *c13Node) evaluated(phase string, m *c13Msg, out *[]*vleaf) {
	if n == nil || !n.applies(phase) {
		return
	}
	switch n.kind {
	case "leaf":
		*out = append(*out, n.leaf)
	case "fifo":
		for _, c := range n.children {
			c.evaluated(phase, m, out)
		}
	case "filter":
		if n.cond(phase, m) {
			n.then.evaluated(phase, m, out)
		} else {
			n.els.evaluated(phase, m, out)
		}
	}
}

func (n *c13Node) leaves(out *[]*vleaf) {
	if n == nil {
		return
	}
	switch n.kind {
	case "leaf":
		*out = append(*out, n.leaf)
	case "fifo":
		for _, c := range n.children {
			c.leaves(out)
		}
	case "filter":
		n.then.leaves(out)
		n.els.leaves(out)
	}
}

func genC13Tree(k *kernel.K, depth int, next *int, branch string) *c13Node {
	w := k.W
	kind := "leaf"
	if depth > 0 {
		kind = []string{"leaf", "fifo", "filter"}[w.Pick([]int{3, 3, 4})]
	}
	n := &c13Node{kind: kind}
	scope := func() (bool, []string) {
		switch w.Pick([]int{6, 1, 1, 1}) {
		case 1:
			return true, []string{"request"}
		case 2:
			return true, []string{"response"}
		case 3:
			return true, []string{"request", "response"}
		}
		return false, nil
	}
	switch kind {
	case "fifo":
		n.hasScope, n.scope = scope()
		for i, m := 0, w.Range(1, 3); i < m; i++ {
			n.children = append(n.children, genC13Tree(k, depth-1, next, branch))
		}
	case "filter":
		n.hasScope, n.scope = scope()
		n.fkind = []string{"url_query", "header", "querystring", "method", "port", "header_regex"}[w.Draw(6)]
		switch n.fkind {
		case "port":
			n.fval = []string{"80", "8080"}[w.Draw(2)]
		case "header_regex":
			n.fval = []string{"^a$", "^[bc]$"}[w.Draw(2)]
		case "url_query":
			n.fval = []string{"k=v", "k=w"}[w.Draw(2)]
		case "header":
			n.fval = []string{"a", "b"}[w.Draw(2)]
		case "querystring":
			n.fval = []string{"v", "w"}[w.Draw(2)]
		case "method":
			n.fval = []string{"POST", "GET"}[w.Draw(2)]
		}
		// "else" sticks: a leaf anywhere below an else branch is reached through it
		tb := "then"
		if branch == "else" {
			tb = "else"
		}
		n.then = genC13Tree(k, depth-1, next, tb)
		if w.Chance(2, 3) {
			n.els = genC13Tree(k, depth-1, next, "else")
		}
	case "leaf":
		*next++
		i := *next
		l := &vleaf{branch: branch}
		l.kind = []string{"status", "header", "method", "url", "querystring", "failure", "pingback", "gate"}[w.Pick([]int{4, 4, 2, 2, 2, 2, 1, 3})]
		switch l.kind {
		case "status":
			l.want = fmt.Sprint(230 + i)
			if w.Chance(1, 2) {
				l.want = []string{"200", "404"}[w.Draw(2)]
			}
			l.tag = "want " + l.want
			// a response-only verifier: a request scope would be rejected
			if w.Chance(1, 4) {
				l.hasScope, l.scope = true, []string{"response"}
			}
		case "header":
			l.tag = fmt.Sprintf("X-V%d", i)
			l.want = []string{"", "yes"}[w.Draw(2)]
			l.hasScope, l.scope = scope()
		case "method":
			l.want = []string{"PUT", "DELETE", "GET", "POST"}[w.Draw(4)]
			l.tag = "got " + l.want + ","
		case "url":
			l.want = fmt.Sprintf("v%d.test", i)
			if w.Chance(1, 2) {
				l.want = "origin-a.test"
			}
			l.tag = fmt.Sprintf("want %q", l.want)
		case "querystring":
			l.tag = fmt.Sprintf("q%d", i)
			l.want = []string{"", "1"}[w.Draw(2)]
		case "failure":
			l.tag = fmt.Sprintf("fail-%d", i)
		case "pingback":
			l.want = fmt.Sprintf("/ping%d", i)
			l.tag = l.want
		case "gate":
			l.want = fmt.Sprint(i)
			l.tag = fmt.Sprintf("gate-verifier-%d", i)
		}
		n.leaf = l
	}
	return n
}

type c13Op struct {
	kind string // query | reset
	item *ClientItem
	idx  int // index among admin responses
}

func runC13(k *kernel.K) {
	w := k.W
	aw := newAPIWorld(k)
	n := aw.n
	k.AddSource(k.GateSource)
	gateN := 0
	c13GateHook = func(id int, side string) {
		gateN++
		k.Probe("query_parked_mid_walk")
		k.Park(fmt.Sprintf("verify-walk gate%d %s #%d", id, side, gateN))
	}
	defer func() { c13GateHook = nil }()
	next := 0
	tree := genC13Tree(k, w.Range(1, 3), &next, "group")
	// the root is always a FIFO group or a filter so that the tree can be verified and reset
	if tree.kind == "leaf" {
		tree = &c13Node{kind: "fifo", children: []*c13Node{tree}}
	}
	var leaves []*vleaf
	tree.leaves(&leaves)
	// unique tags only (duplicates would make messages unattributable)
	seen := map[string]bool{}
	for _, l := range leaves {
		if seen[l.tag] {
			l.kind, l.tag = "failure", fmt.Sprintf("fail-dup-%d", len(seen))
			l.hasScope, l.scope = false, nil
		}
		seen[l.tag] = true
	}
	msgs := map[int]*c13Msg{}
	origin := NewOrigin(k, n, "origin-a.test:80", nil)
	resps := map[int]*RespSpec{}
	origin.Plan = func(oc *OConn, req *wire.Msg) *Reply {
		rs := resps[exchangeID(req.Target)]
		if rs == nil {
			return &Reply{Raw: []byte("HTTP/1.1 200 OK\r\nContent-Length: 0\r\n\r\n")}
		}
		return &Reply{Raw: rs.Encode(req.Method)}
	}
	traffic := NewClient(k, aw.l, "traffic", "10.1.0.2")
	traffic2 := NewClient(k, aw.l, "traffic2", "10.1.0.4") // a second connection: exchanges of the two overlap
	admin := NewClient(k, aw.l, "admin", "10.1.0.3")
	// seam R8: goroutines can be parked right before a mutex acquisition in MultiError, the
	// configuration holder and the groups, so that another exchange or a query runs in between
	ly := k.LockYield()
	martian.VerifYieldHook, martianhttp.VerifYieldHook, fifo.VerifYieldHook = ly, ly, ly
	defer func() { martian.VerifYieldHook, martianhttp.VerifYieldHook, fifo.VerifYieldHook = nil, nil, nil }()
	conf := admin.Add(apiReq(900, "POST", "/configure", tree.JSON()))
	k.Note("config: %s", clipStr(tree.JSON(), 700))

	nex := w.Range(1, 6)
	for i := 0; i < nex; i++ {
		id := i + 1
		m := &c13Msg{id: id, method: []string{"GET", "POST", "PUT"}[w.Draw(3)], host: "origin-a.test", path: fmt.Sprintf("/x%d/v", id), params: map[string]string{}, reqHdr: map[string]string{}, resHdr: map[string]string{}, reqCond: []string{"a", "b", ""}[w.Draw(3)], resCond: []string{"a", "b", ""}[w.Draw(3)], status: []int{200, 404}[w.Draw(2)]}
		var qparts []string
		switch w.Draw(3) {
		case 0:
			m.qk = "v"
			qparts = append(qparts, "k=v")
		case 1:
			m.qk = "w"
			qparts = append(qparts, "k=w")
		}
		r := &ReqSpec{ID: id, Method: m.method, Abs: true, Host: "origin-a.test", Path: m.path}
		rs := &RespSpec{Status: m.status, Framing: "cl", Body: bodyBytes(id, 'r', 10)}
		for _, l := range leaves {
			switch l.kind {
			case "header":
				if w.Chance(1, 2) {
					v := []string{"yes", "no"}[w.Draw(2)]
					m.reqHdr[l.tag] = v
					r.Header = append(r.Header, wire.HF{Name: l.tag, Value: v})
				}
				if w.Chance(1, 2) {
					v := []string{"yes", "no"}[w.Draw(2)]
					m.resHdr[l.tag] = v
					rs.Header = append(rs.Header, wire.HF{Name: l.tag, Value: v})
				}
			case "querystring":
				if w.Chance(1, 2) && len(qparts) == 0 {
					v := []string{"1", "2"}[w.Draw(2)]
					m.params[l.tag] = v
					qparts = append(qparts, l.tag+"="+v)
				}
			}
		}
		if m.qk != "" {
			m.params["k"] = m.qk
		}
		if len(qparts) > 0 {
			r.HasQ, r.Query = true, strings.Join(qparts, "&")
			m.query = r.Query
		}
		if m.reqCond != "" {
			r.Header = append(r.Header, wire.HF{Name: "X-Cond", Value: m.reqCond})
		}
		if m.resCond != "" {
			rs.Header = append(rs.Header, wire.HF{Name: "X-Cond", Value: m.resCond})
		}
		if m.method != "GET" {
			r.Framing, r.Body = "cl", []byte("plain body")
			r.Header = append(r.Header, wire.HF{Name: "Content-Type", Value: "text/plain"})
		}
		msgs[id] = m
		resps[id] = rs
		tc := traffic
		if w.Chance(1, 3) {
			tc = traffic2
			k.Probe("exchange_on_second_connection")
		}
		if w.Chance(1, 5) {
			// the client looks at the verification results itself, on the connection it uses for
			// traffic (not judged as a query; what follows on the connection is ordinary traffic)
			tc.Add(apiReq(930+i, "GET", "/verify", ""))
			k.Probe("api_request_on_a_traffic_connection")
		}
		tc.Add(r)
		k.Note("exchange #%d %s %s cond=%q hdr=%v -> %d cond=%q hdr=%v", id, m.method, r.Target(), m.reqCond, m.reqHdr, m.status, m.resCond, m.resHdr)
	}
	var ops []*c13Op
	for i, m := 0, w.Range(1, 5); i < m; i++ {
		kind := []string{"query", "reset"}[w.Pick([]int{3, 2})]
		op := &c13Op{kind: kind, idx: i + 1}
		var ar *ReqSpec
		if kind == "query" {
			ar = apiReq(910+i, "GET", "/verify", "")
		} else {
			ar = apiReq(910+i, "POST", "/verify/reset", "")
		}
		if w.Chance(1, 3) {
			// addressed to the API server's own address instead of the API host name
			ar.Host = "10.0.0.9:8181"
			k.Probe("api_request_to_server_address")
		}
		op.item = admin.Add(ar)
		ops = append(ops, op)
	}
	if w.Chance(1, 5) {
		// a client that wants to talk to the API over TLS first asks for a tunnel to the API host:
		// that CONNECT is addressed to the proxy's own API too
		tun := NewClient(k, aw.l, "api-connect", "10.1.0.5")
		tun.Hold = true
		tun.Add(&ReqSpec{ID: 995, Method: "CONNECT", Host: "martian.proxy:443", Path: "martian.proxy:443"})
		k.AddInvariant(func() {
			if tun.Hold && len(admin.P.Final()) >= 1 {
				tun.Hold = false
			}
		})
		k.Probe("connect_to_api_host")
	}
	ops = append(ops, &c13Op{kind: "query", idx: len(ops) + 1, item: admin.Add(apiReq(990, "GET", "/verify", ""))})
	var opNames []string
	for _, op := range ops {
		opNames = append(opNames, op.kind)
	}
	k.Note("admin: configure, %s", strings.Join(opNames, ", "))
	// traffic starts once the configuration has been accepted
	traffic.Hold, traffic2.Hold = true, true
	k.AddInvariant(func() {
		if traffic.Hold && len(admin.P.Final()) >= 1 {
			traffic.Hold, traffic2.Hold = false, false
		}
	})
	k.StateFn = func() string {
		return fmt.Sprintf("%s|%s|%s|%s|%s", n.Fingerprint(), traffic.State(), traffic2.State(), admin.State(), origin.State())
	}
	k.RunUntil(func() bool { return traffic.Done() && traffic2.Done() && admin.Done() && len(k.Parked()) == 0 })
	k.Drain()
	k.ReleaseAll()
	k.Settle()
	if k.Inconclusive != "" {
		aw.cleanup()
		return
	}
	afin := admin.P.Final()
	if len(afin) < 1 || afin[0].Status != 200 || !conf.Sent {
		st := -1
		if len(afin) > 0 {
			st = afin[0].Status
		}
		k.Fail("C13.query_exact", map[string]string{"verifier": "config", "branch": "n/a", "scope": "n/a"}, "the verifier configuration was not accepted (status %d): %s", st, clipStr(tree.JSON(), 400))
		aw.cleanup()
		return
	}
	if len(afin) != len(admin.Script) {
		k.Fail("C13.query_exact", map[string]string{"verifier": "api", "branch": "n/a", "scope": "n/a"}, "admin got %d answers for %d requests (parse error %v)", len(afin), len(admin.Script), admin.P.Err)
		aw.cleanup()
		return
	}
	// ---- model ----
	type failure struct {
		leaf  *vleaf
		ex    int
		phase string
		step  int // the phase entered the user configuration
		end   int // the phase left it (a goroutine can be parked in between, seam R8)
	}
	var fails []failure
	for id, m := range msgs {
		for _, phase := range []string{"request", "response"} {
			step, ok := aw.phaseStep(id, phase)
			if !ok {
				continue
			}
			var ev []*vleaf
			tree.evaluated(phase, m, &ev)
			for _, l := range ev {
				if l.unmet(phase, m) {
					end, ok := aw.phaseStep(id, phase+"_end")
					if !ok {
						end = 1 << 30
					}
					fails = append(fails, failure{l, id, phase, step, end})
				}
			}
		}
	}
	sort.Slice(fails, func(i, j int) bool {
		if fails[i].ex != fails[j].ex {
			return fails[i].ex < fails[j].ex
		}
		return fails[i].leaf.tag+fails[i].phase < fails[j].leaf.tag+fails[j].phase
	})
	sent := func(op *c13Op) int { return op.item.SentStep }
	done := func(op *c13Op) int { return admin.RespStep[op.idx] }
	for qi, q := range ops {
		if q.kind != "query" {
			if afin[q.idx].Status != 204 && afin[q.idx].Status != 200 {
				k.Fail("C13.reset_clears", map[string]string{"verifier": "api", "branch": "n/a", "scope": "n/a"}, "POST /verify/reset answered with status %d", afin[q.idx].Status)
			}
			continue
		}
		var body struct {
			Errors []struct {
				Message string `json:"message"`
			} `json:"errors"`
		}
		if err := json.Unmarshal(afin[q.idx].Body, &body); err != nil {
			k.Fail("C13.query_exact", map[string]string{"verifier": "api", "branch": "n/a", "scope": "n/a"}, "GET /verify answered with status %d and a body that is not the expected JSON: %v: %s", afin[q.idx].Status, err, clipStr(string(afin[q.idx].Body), 200))
			continue
		}
		// last reset before this query
		var lastReset *c13Op
		for _, r := range ops[:qi] {
			if r.kind == "reset" {
				lastReset = r
			}
		}
		type key struct {
			tag   string
			ex    int
			phase string
		}
		must, may, cleared := map[key]failure{}, map[key]failure{}, map[key]failure{}
		for _, f := range fails {
			kk := key{f.leaf.tag, f.ex, f.phase}
			switch {
			case f.step > done(q):
				// evaluated after the query was answered: must not appear
			case f.end >= sent(q):
				may[kk] = f // evaluation overlaps the query
			case lastReset != nil && f.end < sent(lastReset):
				cleared[kk] = f
			case lastReset != nil && f.step <= done(lastReset):
				may[kk] = f // evaluation overlaps the reset
			default:
				must[kk] = f
			}
		}
		// pingback leaves: one error while no matching request has been seen
		pingWanted := map[string]*vleaf{}
		for _, l := range leaves {
			if l.kind == "pingback" {
				pingWanted[l.tag] = l
			}
		}
		got := map[key]int{}
		for _, e := range body.Errors {
			msg := e.Message
			// attribute by the verifier's own words, not by what the URL happens to contain
			words := msg
			if i, j := strings.Index(msg, "("), strings.Index(msg, ")"); i >= 0 && j > i {
				words = msg[:i] + msg[j+1:]
			}
			var leaf *vleaf
			for _, l := range leaves {
				if strings.Contains(words, l.tag) && (leaf == nil || len(l.tag) > len(leaf.tag)) {
					leaf = l
				}
			}
			if leaf == nil {
				for _, l := range leaves {
					if l.kind == "pingback" && strings.Contains(msg, "("+l.tag+")") {
						leaf = l
					}
				}
			}
			ex := exchangeID(msg)
			if leaf == nil {
				k.Fail("C13.query_exact", map[string]string{"verifier": "unknown", "branch": "n/a", "scope": "n/a"}, "query %d returned an error no verifier of the configuration explains: %q", qi, msg)
				continue
			}
			if leaf.kind == "pingback" {
				delete(pingWanted, leaf.tag)
				continue
			}
			if ex < 0 || msgs[ex] == nil {
				if strings.Contains(msg, "martian.proxy") || strings.Contains(msg, "10.0.0.9") {
					params := map[string]string{"verifier": leaf.kind}
					if strings.Contains(msg, "martian.proxy:443") {
						params["request"] = "connect_to_api_host"
					}
					k.Fail("C13.api_not_counted", params, "query %d: a request addressed to the proxy's own API was counted by the %s verifier: %q", qi, leaf.kind, msg)
				} else {
					k.Fail("C13.query_exact", map[string]string{"verifier": leaf.kind, "branch": leaf.branch, "scope": "n/a"}, "query %d returned an error for an exchange nobody sent: %q", qi, msg)
				}
				continue
			}
			phase := "request"
			if leaf.kind == "status" || (leaf.kind == "header" && strings.Contains(msg, "response(")) {
				phase = "response"
			}
			got[key{leaf.tag, ex, phase}]++
		}
		for tag, l := range pingWanted {
			if !reachable(tree, l, "request") {
				continue
			}
			k.Fail("C13.query_exact", map[string]string{"verifier": "pingback", "branch": l.branch, "scope": "request"}, "query %d: no request to %s was seen, yet the pingback verifier reported nothing", qi, tag)
		}
		for kk, f := range must {
			if got[kk] == 0 {
				k.Fail("C13.query_exact", map[string]string{"verifier": f.leaf.kind, "branch": f.leaf.branch, "scope": f.phase}, "query %d (sent at step %d) does not report the %s failure of exchange #%d evaluated at step %d by the %s verifier %q (%s branch)", qi, sent(q), f.phase, f.ex, f.step, f.leaf.kind, f.leaf.tag, f.leaf.branch)
			}
		}
		for kk, c := range got {
			f, isMust := must[kk]
			_, isMay := may[kk]
			cf, isCleared := cleared[kk]
			switch {
			case c > 1:
				k.Fail("C13.query_exact", map[string]string{"verifier": kk.tag, "branch": "n/a", "scope": kk.phase}, "query %d reports the failure of exchange #%d by verifier %q %d times", qi, kk.ex, kk.tag, c)
			case isMust || isMay:
				_ = f
			case isCleared:
				k.Fail("C13.reset_clears", map[string]string{"verifier": cf.leaf.kind, "branch": cf.leaf.branch, "scope": cf.phase}, "query %d still reports the %s failure of exchange #%d (evaluated at step %d) although a reset was requested at step %d and answered at step %d afterwards: %s verifier %q in the %s branch", qi, cf.phase, cf.ex, cf.step, sent(lastReset), done(lastReset), cf.leaf.kind, cf.leaf.tag, cf.leaf.branch)
			default:
				k.Fail("C13.query_exact", map[string]string{"verifier": kk.tag, "branch": "n/a", "scope": kk.phase}, "query %d reports a %s failure of exchange #%d by verifier %q that the model does not expect (expectation met, not evaluated, or evaluated later)", qi, kk.phase, kk.ex, kk.tag)
			}
		}
		if len(may) > 0 {
			k.Probe("query_concurrent_with_traffic")
		}
		if lastReset != nil {
			k.Probe("query_after_reset")
		}
	}
	aw.cleanup()
}

// reachable reports whether the leaf is part of the request (or response) side of the tree at
// all, i.e. every node from the root down to it applies to that phase.
func reachable(n *c13Node, l *vleaf, phase string) bool {
	if n == nil || !n.applies(phase) {
		return false
	}
	switch n.kind {
	case "leaf":
		return n.leaf == l
	case "fifo":
		for _, c := range n.children {
			if reachable(c, l, phase) {
				return true
			}
		}
	case "filter":
		return reachable(n.then, l, phase) || reachable(n.els, l, phase)
	}
	return false
}
