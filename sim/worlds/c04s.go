package worlds

import (
	"bytes"
	"fmt"
	"time"

	"verifsim/kernel"
	"verifsim/simnet"
	"verifsim/wire"

	"github.com/google/martian/v3"
)

// C04S — blind CONNECT tunnels and time: a receiver that reads steadily but slowly, and an end
// that stays silent after the other one has finished.
//
// slow_receiver: one side writes 40..70 KB at once and stays open; the other side's transport
// takes a few kilobytes every third of the proxy's timeout. The tunnel is never idle for as long
// as the timeout - bytes reach the receiver all the time - so every byte has to arrive, in order,
// and no end-of-stream before the last one.
//
// silent_survivor: the client sends a few bytes and closes; the target reads them and the
// end-of-stream and then neither sends nor closes. The proxy has to release both connections at
// the latest once the tunnel has been idle for its timeout.

func init() {
	register(&World{
		Name: "C04S", Prop: "C04", Run: runC04S, MaxSteps: 4000,
		Real: []string{"martian.Proxy CONNECT handling and tunnel copy loops with their deadlines"},
		Stub: append([]string{"raw tunnel client and target", "receiver transport that delivers a few KB per clock step", "simulated clock"}, commonStub...),
	})
}

func runC04S(k *kernel.K) {
	w := k.W
	k.FastAdvance = true
	n := simnet.New(k)
	n.DefaultAuto = true
	n.TCPLikeConns = true
	proxy := martian.NewProxy()
	proxy.SetDial(n.DialFunc("proxy"))
	timeout := []time.Duration{30 * time.Second, 5 * time.Minute}[w.Draw(2)]
	proxy.SetTimeout(timeout)
	l := n.Listen("10.0.0.1:8080")
	go proxy.Serve(l)
	k.Settle()
	var tg *simnet.Conn
	var tgRecv, clRecv bytes.Buffer
	tgEOF, clEOF := false, false
	n.Handle("target.test:443", func(c *simnet.Conn) {
		tg = c
		c.OnData(func(b []byte) { tgRecv.Write(b) }, func() { tgEOF = true }, func() { tgEOF = true })
	})
	cl := l.Connect("client", "10.1.0.2")
	rp := wire.NewRespParser()
	rp.Expect("CONNECT")
	established := false
	cl.OnData(func(b []byte) {
		if !established {
			rp.Feed(b)
			if len(rp.Msgs) > 0 {
				established = true
				clRecv.Write(rp.Raw)
			}
			return
		}
		clRecv.Write(b)
	}, func() { clEOF = true }, func() { clEOF = true })
	// some time passes before the client sends its CONNECT (less than the timeout)
	k.Advance(time.Duration(1+w.Draw(int(timeout/time.Second)-2)) * time.Second)
	// ... and sometimes the dial to the target takes a good part of the timeout as well
	slowDial := w.Chance(1, 2)
	if slowDial {
		n.AutoDial = false
		k.Probe("c04s_slow_dial")
	}
	cl.Inject([]byte("CONNECT target.test:443 HTTP/1.1\r\nHost: target.test:443\r\n\r\n"))
	if !slowDial {
		k.Drain()
	} else {
		k.Settle() // (not Drain: the dial stays pending)
		k.Advance(timeout * 6 / 10)
		for _, pd := range n.Pending() {
			n.Settle(pd, "ok")
		}
		n.AutoDial = true
		k.Drain()
	}
	if !established || rp.Msgs[0].Status != 200 || tg == nil {
		k.Fail("C04.all_delivered", map[string]string{"dir": "connect_response", "world": "c04s"}, "no 200 response to CONNECT (established=%v)", established)
		n.Shutdown()
		k.Settle()
		return
	}
	finish := func() {
		cl.Close()
		if tg != nil {
			tg.Close()
		}
		k.Drain()
		k.Advance(3 * time.Second)
		n.Shutdown()
		k.Settle()
	}
	scenario := []string{"slow_receiver", "silent_survivor", "quiet_start", "late_reply"}[w.Pick([]int{3, 2, 1, 3})]
	k.Probe("c04s_" + scenario)
	switch scenario {
	case "quiet_start":
		// the tunnel is quiet for most of the timeout right after it was established
		// (after a slow dial: the pause alone is shorter than the timeout, the dial and the pause
		// together are longer)
		quiet := timeout - 2*time.Second
		if slowDial {
			quiet = timeout * 6 / 10
		}
		k.Advance(quiet)
		cl.Inject([]byte("ping1"))
		k.Drain()
		if tgRecv.String() != "ping1" {
			k.Fail("C04.all_delivered", map[string]string{"dir": "client_to_target", "scenario": scenario}, "the tunnel was established %v ago and quiet since (timeout %v, slow dial before that: %v); the client wrote 5 bytes, the target received %q (end of stream at the client: %v)", quiet, timeout, slowDial, tgRecv.String(), clEOF)
		}
	case "slow_receiver":
		upload := w.Chance(1, 2)
		snd, rcvSys, got, rcvEOF, dir := cl, tg.Peer(), &tgRecv, &tgEOF, "client_to_target"
		if !upload {
			snd, rcvSys, got, rcvEOF, dir = tg, cl.Peer(), &clRecv, &clEOF, "target_to_client"
		}
		data := bodyBytes(1, 's', 40000+w.Draw(30000))
		per := []int{2048, 4096, 6000}[w.Draw(3)]
		rcvSys.SetCap(per)
		rcvSys.SetAuto(false) // what this end writes is delivered by explicit steps, one window at a time
		// (in two writes: the second reaches the proxy while it is still busy delivering the first)
		half := len(data) / 2
		snd.Inject(data[:half])
		k.Settle()
		for i := 0; i < 80 && got.Len() < len(data) && !*rcvEOF; i++ {
			if i == 2 {
				snd.Inject(data[half:])
				k.Settle()
			}
			k.Step() // one delivery of at most a window
			k.Advance(timeout / 3)
		}
		rcvSys.SetAuto(true)
		k.Drain()
		if !bytes.Equal(got.Bytes(), data) {
			k.Fail("C04.all_delivered", map[string]string{"dir": dir, "scenario": scenario}, "the sender wrote %d bytes at once and stayed open; the receiver's transport took %d bytes every %v (proxy timeout %v): %d bytes arrived, in order: %v, the receiver saw end-of-stream: %v", len(data), per, timeout/3, timeout, got.Len(), bytes.HasPrefix(data, got.Bytes()), *rcvEOF)
		}
	case "late_reply":
		// One end says what it has to say and finishes its direction (half-close); the other end
		// reads that, thinks for a while - seconds to a good part of the timeout - and only then
		// answers and closes. Everything it writes has to arrive, then the end-of-stream.
		first, second, firstName := cl, tg, "client"
		got, gotEOF, sawEOF := &clRecv, &clEOF, &tgEOF
		base := clRecv.Len()
		if w.Chance(1, 3) {
			first, second, firstName = tg, cl, "target"
			got, gotEOF, sawEOF = &tgRecv, &tgEOF, &clEOF
			base = tgRecv.Len()
		}
		first.Inject([]byte("question"))
		k.Drain()
		first.CloseWrite()
		k.Drain()
		if !*sawEOF {
			k.Fail("C04.eof_propagation", map[string]string{"closer": firstName, "scenario": scenario}, "%s wrote 8 bytes and finished its direction (half-close); the other end has not seen the end-of-stream at quiescence", firstName)
			break
		}
		pause := []time.Duration{3 * time.Second, 20 * time.Second, timeout / 2, timeout - 5*time.Second}[w.Draw(4)]
		k.Advance(pause)
		k.Drain()
		reply := bodyBytes(2, 'a', 1+w.Draw(20000))
		second.Inject(reply)
		k.Drain()
		if w.Chance(1, 2) {
			// ... in two instalments
			k.Advance(pause / 2)
			more := bodyBytes(3, 'b', 1+w.Draw(5000))
			second.Inject(more)
			reply = append(append([]byte(nil), reply...), more...)
			k.Drain()
		}
		second.Close()
		k.Drain()
		if !bytes.Equal(got.Bytes()[base:], reply) || !*gotEOF {
			k.Fail("C04.all_delivered", map[string]string{"dir": "reply_after_half_close", "scenario": scenario}, "%s finished its direction first; the other end answered %v later (proxy timeout %v) with %d bytes and closed: %d bytes arrived (in order: %v), end-of-stream seen: %v", firstName, pause, timeout, len(reply), got.Len()-base, bytes.HasPrefix(reply, got.Bytes()[base:]), *gotEOF)
		}
	case "silent_survivor":
		cl.Inject([]byte("hello"))
		k.Drain()
		cl.Close()
		k.Drain()
		if tgRecv.String() != "hello" || !tgEOF {
			k.Fail("C04.eof_propagation", map[string]string{"closer": "client", "scenario": scenario}, "client wrote 5 bytes and closed; target received %q, end-of-stream: %v", tgRecv.String(), tgEOF)
			break
		}
		// the target neither sends nor closes
		k.Advance(2*timeout + 5*time.Second)
		k.Drain()
		if p := tg.Peer(); !p.Closed() || !cl.Peer().Closed() {
			k.Fail("C04.conns_released", map[string]string{"survivor": "silent_target"}, "the client finished and closed, the target saw the end-of-stream and stays silent: %v later (proxy timeout %v) the proxy still holds the tunnel (its connection to the target closed: %v, its client connection closed: %v); martian goroutines: %s", 2*timeout+5*time.Second, timeout, p.Closed(), cl.Peer().Closed(), kernel.FormatSummary(kernel.CensusSummary(k.Census(), "martian/v3.")))
		}
	}
	finish()
	_ = fmt.Sprint
}
