package worlds

import (
	"fmt"
	"net/http/httptest"
	"sort"
	"strings"
	"sync"
	"time"

	"verifsim/kernel"
	"verifsim/simnet"
	"verifsim/wire"

	"github.com/google/martian/v3"
	"github.com/google/martian/v3/trafficshape"
)

// C18C — C18 for CONCURRENT shaped connections that share the same shapes (the last factor of the
// property's quantifier), with a configuration that may be posted while they are busy. The
// schedule tape parks goroutines before lock acquisitions of trafficshape (seam R8), so that another
// connection or the configuration endpoint runs between two critical sections of the parked one.
// Counts are -1 (unlimited) throughout, so what each exchange must receive does not depend on which
// connection gets to an action first. Besides the bytes, the world checks progress: every exchange
// ends within simulated minutes; if not, and goroutines wait for mutexes, that is a deadlock.

func init() {
	register(&World{
		Name: "C18C", Prop: "C18", Run: runC18C, MaxSteps: 20000,
		Real: []string{"trafficshape.Listener / Conn / Bucket / Handler with several connections in flight at once", "the context-setting part of martian.Proxy.handle", "net/http.Transport"},
		Stub: append([]string{"raw scripted clients and origins", "lock-acquisition yield points in trafficshape (seam R8), mutex waits idle for the bubble clock (seam R0e)", "bucket busy-wait as 1 ms simulated sleep (seam R3)", "model of close offsets and halts with unlimited counts"}, commonStub...),
	})
}

func genTSConfigConc(k *kernel.K) *tsConfig {
	w := k.W
	c := &tsConfig{}
	paths := []string{"/alpha", "/beta"}
	for i, n := 0, w.Range(1, 2); i < n; i++ {
		s := &tsShape{URLRegex: fmt.Sprintf("http://origin-a\\.test%s/.*", paths[i])}
		for j, m := 0, w.Range(1, 2); j < m; j++ {
			s.Halts = append(s.Halts, &tsHalt{Byte: int64([]int{50, 700, 2100, 4000}[w.Draw(4)]), Duration: int64([]int{0, 50, 400}[w.Draw(3)]), Count: -1})
		}
		if w.Chance(1, 4) {
			s.Closes = append(s.Closes, &tsClose{Byte: int64(650 * (1 + w.Draw(8))), Count: -1})
		}
		if w.Chance(1, 4) {
			s.Throttles = append(s.Throttles, &tsThrottle{Bytes: "1000-3000", Bandwidth: 4000, start: 1000, end: 3000})
		}
		c.Shapes = append(c.Shapes, s)
	}
	return c
}

func runC18C(k *kernel.K) {
	w := k.W
	k.FastAdvance = true
	n := simnet.New(k)
	n.DefaultAuto = true
	n.LogSystemOps = false
	base := n.Listen("10.0.0.1:8080")
	tsl := trafficshape.NewListener(base)
	handler := trafficshape.NewHandler(tsl)
	proxy := martian.NewProxy()
	proxy.SetDial(n.DialFunc("proxy"))
	k.AddSource(k.GateSource)
	go proxy.Serve(tsl)
	k.Settle()

	exs := map[int]*tsEx{}
	origin := NewOrigin(k, n, "origin-a.test:80", nil)
	origin.Plan = func(oc *OConn, req *wire.Msg) *Reply {
		e := exs[exchangeID(req.Target)]
		if e == nil {
			return &Reply{Raw: []byte("HTTP/1.1 500 Unplanned\r\nContent-Length: 0\r\n\r\n")}
		}
		return &Reply{Raw: e.resp.Encode(req.Method)}
	}
	configure := func(c *tsConfig) int {
		req := httptest.NewRequest("POST", "http://martian.proxy/shape-traffic", strings.NewReader(c.JSON()))
		rec := httptest.NewRecorder()
		handler.ServeHTTP(rec, req)
		return rec.Code
	}
	conf := genTSConfigConc(k)
	st := configure(conf)
	k.Note("config -> %d: %s", st, clipStr(conf.JSON(), 1000))
	if st != 200 {
		k.Fail("C18.reject_unchanged", map[string]string{"kind": "valid_rejected"}, "valid shaping configuration was answered with status %d: %s", st, clipStr(conf.JSON(), 300))
		n.Shutdown()
		k.Settle()
		return
	}
	model := conf.clone()
	k.Advance(time.Duration(1+w.Draw(5)) * time.Millisecond)
	// yield points: a handful of lock acquisitions, chosen by ordinal from the schedule tape
	targets := map[int]bool{}
	if k.S != nil {
		span := []int{25, 60, 150, 400}[k.S.Draw(4)]
		for i, m := 0, 1+k.S.Draw(6); i < m; i++ {
			targets[k.S.Draw(span)] = true
		}
	}
	var ymu sync.Mutex
	yc := 0
	trafficshape.VerifYieldHook = func(site string) {
		ymu.Lock()
		i := yc
		yc++
		hit := targets[i]
		ymu.Unlock()
		if hit && !k.Draining {
			k.Probe("parked_before_lock")
			k.Park(fmt.Sprintf("%s#%d", site, i))
		}
	}
	defer func() { trafficshape.VerifYieldHook = nil }()

	type cstate struct {
		cl      *Client
		stamps  *[]writeStamp
		planned int
		cur     *tsEx
		curIdx  int
		before  int
		t0      time.Duration
		judged  int
	}
	var cs []*cstate
	nextID := 1
	for i, nc := 0, w.Range(2, 4); i < nc; i++ {
		cl := NewClient(k, base, fmt.Sprintf("c%d", i), fmt.Sprintf("10.1.0.%d", 2+i))
		if cl.C == nil {
			break
		}
		s := &cstate{cl: cl, stamps: &[]writeStamp{}, planned: w.Range(1, 2)}
		cl.C.Peer().OnWrite = func(cum int64) { *s.stamps = append(*s.stamps, writeStamp{cum, k.Now()}) }
		cs = append(cs, s)
	}
	k.Probe(fmt.Sprintf("concurrent_connections_%d", len(cs)))
	start := func(s *cstate) {
		e := &tsEx{id: nextID}
		nextID++
		e.path = []string{"/alpha", "/beta", "/unshaped"}[w.Pick([]int{4, 2, 1})]
		e.total = []int{300, 2500, 6000}[w.Pick([]int{1, 3, 2})]
		e.body = bodyBytes(e.id, 'r', e.total)
		e.spec = &ReqSpec{ID: e.id, Method: "GET", Abs: true, Host: "origin-a.test", Path: fmt.Sprintf("%s/x%d", e.path, e.id)}
		e.resp = &RespSpec{Status: 200, Framing: "cl", Body: e.body}
		exs[e.id] = e
		s.cur, s.curIdx, s.before, s.t0 = e, len(s.cl.Script), len(*s.stamps), k.Now()
		s.cl.Add(e.spec)
	}
	for _, s := range cs {
		start(s)
	}
	// a configuration posted while the connections are busy
	var newConf *tsConfig
	var newModel *tsConfig
	cfgAt, cfgPosted, cfgStatus := -1, false, 0
	if w.Chance(1, 2) {
		cfgAt = w.Draw(40)
		if w.Chance(1, 2) {
			newConf = genTSConfigConc(k)
		} else {
			newConf = conf // the same shapes again
		}
	}
	t00 := k.Now()
	const limit = 5 * time.Minute
	advances := 0
	for guard := 0; guard < 6000; guard++ {
		k.Settle()
		if guard == cfgAt {
			cfgPosted = true
			newModel = newConf.clone()
			k.Probe("config_posted_while_connections_busy")
			k.Logf("posting configuration: %s", clipStr(newConf.JSON(), 600))
			go func() { cfgStatus = configure(newConf) }()
			continue
		}
		allDone := true
		for _, s := range cs {
			if s.cur != nil && s.cl.Done() {
				// judge the exchange that just ended
				if cfgPosted {
					c18CheckStale(k, s.cur, s.cl, model, newModel, 0, (*s.stamps)[s.before:], s.t0, s.judged)
				} else {
					c18Check(k, s.cur, s.cl, model, 0, s.judged == 0, (*s.stamps)[s.before:], s.t0, s.judged)
				}
				s.judged++
				s.cur = nil
				if s.cl.Alive() && s.judged < s.planned {
					start(s)
				}
			}
			if s.cur != nil {
				allDone = false
			}
		}
		if allDone && (!cfgPosted || cfgStatus != 0) && guard > cfgAt {
			break
		}
		if k.Step() {
			continue
		}
		step := time.Millisecond
		switch {
		case advances > 400:
			step = 500 * time.Millisecond
		case advances > 150:
			step = 50 * time.Millisecond
		case advances > 50:
			step = 5 * time.Millisecond
		}
		advances++
		k.Advance(step)
		if k.Now()-t00 > limit {
			break
		}
	}
	k.Settle()
	// Progress: whatever is still unfinished after simulated minutes will not finish.
	var stuck []string
	for _, s := range cs {
		if s.cur != nil {
			got := 0
			if s.cl.P.Cur != nil {
				got = len(s.cl.P.Cur.Body)
			}
			stuck = append(stuck, fmt.Sprintf("exchange #%d on %s (GET %s, %d of %d body bytes received)", s.cur.id, s.cl.Name, s.cur.spec.Target(), got, len(s.cur.body)))
		}
	}
	if cfgPosted && cfgStatus == 0 {
		stuck = append(stuck, "the configuration request posted while the connections were busy (no status yet)")
	}
	if len(stuck) > 0 {
		mb := k.MutexBlocked()
		var locks []string
		for _, g := range mb {
			locks = append(locks, g.TopWith("martian/v3/trafficshape")+" ["+g.State+"]")
		}
		sort.Strings(locks)
		if len(mb) > 0 {
			k.Fail("C18.deadlock", map[string]string{"config_posted": fmt.Sprint(cfgPosted)}, "%d connections shared the shapes %s; after %v of simulated time these have not finished: %v; goroutines waiting for a mutex: %v", len(cs), clipStr(conf.JSON(), 300), k.Now()-t00, stuck, locks)
		} else {
			k.Fail("C18.bytes_exact", map[string]string{"shaped": "true", "mode": "concurrent"}, "%d connections shared the shapes %s; after %v of simulated time these have not finished: %v (no goroutine waits for a mutex)", len(cs), clipStr(conf.JSON(), 300), k.Now()-t00, stuck)
		}
	}
	if cfgPosted && cfgStatus != 0 && cfgStatus != 200 {
		k.Fail("C18.reject_unchanged", map[string]string{"kind": "valid_rejected"}, "valid shaping configuration (posted while connections were busy) was answered with status %d: %s", cfgStatus, clipStr(newConf.JSON(), 300))
	}
	for _, s := range cs {
		s.cl.CloseNow()
	}
	k.Settle()
	for k.Step() {
	}
	k.Settle()
	n.Shutdown()
	k.Settle()
}
