package worlds

import (
	"bytes"
	"encoding/binary"
	"errors"
	"fmt"
	"io"
	"net/http"
	"net/url"
	"sort"
	"strings"
	"sync"
	"time"

	"verifsim/kernel"

	"github.com/google/martian/v3"
	"github.com/google/martian/v3/marbl"
)

// C19 — marbl streams decode to the logged messages with intact, ordered bodies; the frame
// reader never panics.
//
// Part 1 (class "stream"): the real marbl.Stream with K concurrently logged messages; each
// message's body is consumed through the logging wrapper by its own goroutine with drawn read
// sizes, the controller interleaving the reads (gates), underlying bodies returning drawn chunk
// sizes, EOF together with or after the last bytes, or an error at an offset; early close.
// Part 2 (class "reader"): a valid stream from part 1 truncated at EVERY offset and corrupted at
// drawn places (bit flips, 0x00/0xFF, length fields set to wrapping boundary values), fed to the
// real marbl.Reader.

func init() {
	register(&World{
		Name: "C19", Prop: "C19", Run: runC19, MaxSteps: 20000,
		Real: []string{"marbl.Stream (LogRequest, LogResponse, frame encoders, writer goroutine)", "marbl body wrapper (one data frame per Read)", "marbl.Reader (frame decoder)"},
		Stub: []string{"consumer goroutines scheduled by the controller", "scripted underlying bodies (chunking, EOF placement, read errors)", "sink writer", "independent marbl frame parser"},
	})
}

type mFrame struct {
	Kind     byte // 1 header, 2 data
	MT       byte
	ID       string
	Name     string
	Value    string
	Index    uint32
	Terminal bool
	Data     []byte
}

// parseMarbl is the harness's own decoder of the marbl wire format.
func parseMarbl(b []byte) ([]mFrame, error) {
	var out []mFrame
	for len(b) > 0 {
		if len(b) < 10 {
			return out, fmt.Errorf("truncated frame header at %d frames", len(out))
		}
		f := mFrame{Kind: b[0], MT: b[1], ID: string(b[2:10])}
		b = b[10:]
		switch f.Kind {
		case 1:
			if len(b) < 8 {
				return out, errors.New("truncated header lengths")
			}
			nl, vl := int(binary.BigEndian.Uint32(b[:4])), int(binary.BigEndian.Uint32(b[4:8]))
			b = b[8:]
			if nl+vl > len(b) || nl < 0 || vl < 0 {
				return out, errors.New("truncated header frame")
			}
			f.Name, f.Value = string(b[:nl]), string(b[nl:nl+vl])
			b = b[nl+vl:]
		case 2:
			if len(b) < 9 {
				return out, errors.New("truncated data descriptor")
			}
			f.Index = binary.BigEndian.Uint32(b[:4])
			f.Terminal = b[4] == 1
			dl := int(binary.BigEndian.Uint32(b[5:9]))
			b = b[9:]
			if dl > len(b) {
				return out, errors.New("truncated data frame")
			}
			f.Data = append([]byte(nil), b[:dl]...)
			b = b[dl:]
		default:
			return out, fmt.Errorf("unknown frame type %d after %d frames", f.Kind, len(out))
		}
		out = append(out, f)
	}
	return out, nil
}

type lockedBuf struct {
	mu sync.Mutex
	b  bytes.Buffer
	// gate, when set, parks every Write until the controller lets it complete (a slow sink:
	// senders queue up behind the stream's writer goroutine meanwhile).
	gate func(n int)
	n    int
	// failAt, when positive, makes the failAt-th Write fail (once): a full disk, a closed pipe.
	failAt, writes int
	failed         bool
}

func (l *lockedBuf) Write(p []byte) (int, error) {
	if l.gate != nil {
		l.n++
		l.gate(l.n)
	}
	l.mu.Lock()
	defer l.mu.Unlock()
	l.writes++
	if l.failAt > 0 && l.writes == l.failAt {
		l.failed = true
		return 0, errors.New("write: no space left on device")
	}
	return l.b.Write(p)
}
func (l *lockedBuf) Bytes() []byte {
	l.mu.Lock()
	defer l.mu.Unlock()
	return append([]byte(nil), l.b.Bytes()...)
}

type readRes struct {
	n   int
	err string
}

// scriptBody is the underlying body: returns drawn chunk sizes, EOF with or after the last
// bytes, or an error at an offset.
type scriptBody struct {
	data    []byte
	off     int
	chunks  []int
	ci      int
	eofWith bool // return io.EOF together with the last bytes
	errAt   int  // -1: none; otherwise fail once off >= errAt
	errWith bool // return the error together with bytes
	log     []readRes
	closed  bool
}

var errBody = errors.New("simulated body read error")

func (s *scriptBody) Read(p []byte) (int, error) {
	n := len(s.data) - s.off
	if s.ci < len(s.chunks) && s.chunks[s.ci] < n {
		n = s.chunks[s.ci]
	}
	s.ci++
	if n > len(p) {
		n = len(p)
	}
	var err error
	if s.errAt >= 0 && s.off+n >= s.errAt {
		n = s.errAt - s.off
		if n == 0 || s.errWith {
			err = errBody
		}
	}
	copy(p, s.data[s.off:s.off+n])
	s.off += n
	if err == nil && s.off == len(s.data) && (s.eofWith || n == 0) {
		err = io.EOF
	}
	e := ""
	if err != nil {
		e = err.Error()
	}
	s.log = append(s.log, readRes{n, e})
	return n, err
}
func (s *scriptBody) Close() error { s.closed = true; return nil }

type c19Msg struct {
	idx                                              int
	id                                               string
	isReq                                            bool
	header                                           http.Header
	under                                            *scriptBody
	sizes                                            []int
	maxReads                                         int // early close after this many reads (0 = read to the end)
	got                                              []byte
	log                                              []readRes
	sawEOF                                           bool
	sawErr                                           bool
	done                                             bool
	method, scheme, host, path, query, proto, remote string
	status                                           int
}

func runC19(k *kernel.K) {
	w := k.W
	sink := &lockedBuf{}
	stream := marbl.NewStream(sink)
	k.AddSource(k.GateSource)
	k.BurstGates = true
	nmsg := w.Range(1, 4)
	// Profile "large": several big bodies read in big pieces at the same time (frames of tens of
	// kilobytes from concurrent messages meet in the stream writer).
	large := w.Chance(1, 4)
	if large {
		nmsg = w.Range(2, 4)
	}
	sharedPrefix := nmsg >= 2 && w.Chance(1, 10)
	if sharedPrefix {
		k.Probe("message_ids_share_first_8_bytes")
	}
	var msgs []*c19Msg
	for i := 0; i < nmsg; i++ {
		m := &c19Msg{idx: i, id: fmt.Sprintf("%02dab%04x%08x", i, w.Draw(65536), w.Draw(1<<24)), isReq: w.Chance(1, 2)}
		if sharedPrefix {
			// distinct IDs that agree in their first eight characters (a caller's own numbering)
			m.id = fmt.Sprintf("5f3a9c01%08x", i+1)
		}
		size := []int{0, 1, 17, 1000, 4096, 70000, 1 << 20}[w.Pick([]int{3, 2, 3, 4, 2, 2, 1})]
		if large {
			size = []int{70000, 200000, 1 << 20}[w.Draw(3)]
		}
		m.under = &scriptBody{data: bodyBytes(i+1, 'm', size), errAt: -1, eofWith: w.Chance(1, 2)}
		for j, nch := 0, w.Draw(8); j < nch; j++ {
			// (0: a read that returns no bytes and no error, which io.Reader permits)
			m.under.chunks = append(m.under.chunks, []int{1, 7, 100, 4096, 32768, 0}[w.Pick([]int{3, 3, 3, 3, 3, 2})])
		}
		if w.Chance(1, 6) && size > 0 {
			m.under.errAt = w.Draw(size)
			m.under.errWith = w.Chance(1, 2)
		}
		for j, ns := 0, 1+w.Draw(6); j < ns; j++ {
			m.sizes = append(m.sizes, []int{1, 3, 64, 512, 4096, 32768, 100000}[w.Draw(7)])
		}
		if w.Chance(1, 5) && !large {
			// an empty read buffer somewhere in the cycle (never the only size)
			m.sizes = append(m.sizes, 0)
			k.Probe("zero_length_read_buffer")
		}
		if w.Chance(1, 6) {
			m.maxReads = 1 + w.Draw(4)
		}
		if large {
			m.under.chunks = nil
			m.sizes = []int{[]int{32768, 100000, 20000}[w.Draw(3)]}
			m.under.errAt = -1
			m.maxReads = 0
		}
		if size > 5000 {
			// keep the number of reads (= controller steps) of a large body bounded
			for j, c := range m.under.chunks {
				if c < 100 {
					m.under.chunks[j] = 4096
				}
			}
			for j, c := range m.sizes {
				if c < 512 {
					m.sizes[j] = 8192
				}
			}
		}
		m.header = http.Header{}
		for j, nh := 0, w.Draw(6); j < nh; j++ {
			m.header.Add([]string{"X-A", "X-B", "Accept", "Cookie", "X-Empty"}[w.Draw(5)], fmt.Sprintf("v%d-%d", i, j))
		}
		m.method, m.scheme, m.host, m.path, m.query, m.proto, m.remote = "POST", "http", "origin.test", fmt.Sprintf("/m%d/p%%20q", i), "a=1&b=%20", "HTTP/1.1", fmt.Sprintf("10.1.0.%d:4000", i+2)
		m.status = 200 + i
		msgs = append(msgs, m)
		k.Note("msg%d id=%s req=%v body=%dB chunks=%v eofWith=%v errAt=%d(with %v) reads=%v maxReads=%d headers=%d", i, m.id, m.isReq, size, m.under.chunks, m.under.eofWith, m.under.errAt, m.under.errWith, m.sizes, m.maxReads, len(m.header))
	}
	interleave := w.Chance(2, 3) || large
	if w.Chance(1, 6) {
		sink.failAt = 1 + w.Draw(30)
	}
	if w.Chance(1, 3) {
		k.Probe("slow_sink")
		sink.gate = func(n int) { k.Park(fmt.Sprintf("sink write#%06d", n)) }
		// ... and a write of the sink may take a while on the clock, too
		slowClock := 3
		k.AddSource(func(add func(kernel.Action)) {
			if slowClock == 0 || k.Draining {
				return
			}
			for _, g := range k.Parked() {
				if strings.HasPrefix(g.Name, "sink write#") {
					add(kernel.Action{Key: "the sink's write takes a second", W: 1, Class: kernel.Clock, Do: func() {
						slowClock--
						k.Probe("sink_write_takes_simulated_time")
						k.FastAdvance = true
						k.Advance(time.Second)
						k.FastAdvance = false
					}})
					return
				}
			}
		})
	}
	var mu sync.Mutex
	for _, m := range msgs {
		m := m
		go func() {
			var body io.ReadCloser
			u, _ := url.Parse(m.scheme + "://" + m.host + m.path + "?" + m.query)
			req := &http.Request{Method: m.method, URL: u, Proto: m.proto, ProtoMajor: 1, ProtoMinor: 1, Host: m.host, RemoteAddr: m.remote, Header: m.header.Clone(), Body: m.under, ContentLength: int64(len(m.under.data))}
			_, remove, _ := martian.TestContext(req, nil, nil)
			defer remove()
			if m.isReq {
				stream.LogRequest(m.id, req)
				body = req.Body
			} else {
				res := &http.Response{StatusCode: m.status, Status: fmt.Sprintf("%d Status", m.status), Proto: m.proto, ProtoMajor: 1, ProtoMinor: 1, Header: m.header.Clone(), Body: m.under, Request: req, ContentLength: int64(len(m.under.data))}
				stream.LogResponse(m.id, res)
				body = res.Body
			}
			for r := 0; ; r++ {
				if interleave {
					k.Park(fmt.Sprintf("msg%d read#%d", m.idx, r))
				}
				buf := make([]byte, m.sizes[r%len(m.sizes)])
				n, err := body.Read(buf)
				mu.Lock()
				m.got = append(m.got, buf[:n]...)
				e := ""
				if err != nil {
					e = err.Error()
				}
				m.log = append(m.log, readRes{n, e})
				if err == io.EOF {
					m.sawEOF = true
				} else if err != nil {
					m.sawErr = true
				}
				mu.Unlock()
				if err != nil || (m.maxReads > 0 && r+1 >= m.maxReads) {
					break
				}
			}
			body.Close()
			mu.Lock()
			m.done = true
			mu.Unlock()
		}()
	}
	k.StateFn = func() string {
		mu.Lock()
		defer mu.Unlock()
		var sb strings.Builder
		for _, m := range msgs {
			fmt.Fprintf(&sb, "%d.%v|", len(m.log), m.done)
		}
		return sb.String()
	}
	// Sometimes the application closes the stream while bodies are still being read through their
	// wrappers: what was logged until then stays a valid log, and the reads go on returning what the
	// underlying bodies return.
	closeAt, closedEarly := -1, false
	if w.Chance(1, 8) {
		closeAt = w.Draw(12)
	}
	for n := 0; ; n++ {
		if n == closeAt {
			closedEarly = true
			k.Probe("stream_closed_while_bodies_open")
			go stream.Close()
			k.Settle()
		}
		if !k.Step() {
			break
		}
	}
	k.Settle()
	if k.Inconclusive != "" {
		k.ReleaseAll()
		k.Settle()
		return
	}
	if !closedEarly {
		stream.Close()
	}
	k.Settle()
	raw := sink.Bytes()
	sink.mu.Lock()
	sinkFailed := sink.failed
	sink.mu.Unlock()
	if sinkFailed {
		// One write of the sink failed: the log has a hole, which is not judged. What must still
		// hold is that logging stays out of the way - every read through the wrapper returns what
		// the underlying body returned, and every call returns.
		k.FaultFired("sink_write_fails_once")
		for _, m := range msgs {
			desc := fmt.Sprintf("message %d (id %s, request=%v, body %dB)", m.idx, m.id[:8], m.isReq, len(m.under.data))
			mu.Lock()
			done := m.done
			mu.Unlock()
			if !done {
				k.Fail("C19.wrapper_transparent", map[string]string{"sink_write_failed": "true"}, "%s: one write of the log's sink failed (write #%d); the consumer's read through the logging wrapper (or the call that logs the message) has not returned at quiescence", desc, sink.failAt)
			} else if !closedEarly && fmt.Sprint(m.log) != fmt.Sprint(m.under.log) {
				k.Fail("C19.wrapper_transparent", map[string]string{"sink_write_failed": "true"}, "%s: one write of the log's sink failed; reads through the logging wrapper returned %v, the underlying body returned %v", desc, clip(m.log), clip(m.under.log))
			}
		}
		return
	}
	// ---- oracle, part 1 ----
	frames, perr := parseMarbl(raw)
	if perr != nil {
		k.Fail("C19.frames_whole", nil, "the byte stream written to the sink does not split into whole frames: %v (%d bytes, %d frames parsed)", perr, len(raw), len(frames))
		return
	}
	// the real reader must agree with the independent parser
	rd := marbl.NewReader(bytes.NewReader(raw))
	for i := 0; ; i++ {
		f, err := rd.ReadFrame()
		if err == io.EOF {
			if i != len(frames) {
				k.Fail("C19.reader_agrees", nil, "marbl.Reader decoded %d frames, the independent parser %d", i, len(frames))
			}
			break
		}
		if err != nil || i >= len(frames) {
			k.Fail("C19.reader_agrees", nil, "marbl.Reader failed on a stream the independent parser accepts: frame %d: %v", i, err)
			break
		}
		want := frames[i]
		ok := false
		switch v := f.(type) {
		case marbl.Header:
			ok = want.Kind == 1 && v.ID == want.ID && byte(v.MessageType) == want.MT && v.Name == want.Name && v.Value == want.Value
		case marbl.Data:
			ok = want.Kind == 2 && v.ID == want.ID && byte(v.MessageType) == want.MT && v.Index == want.Index && v.Terminal == want.Terminal && bytes.Equal(v.Data, want.Data)
		}
		if !ok {
			k.Fail("C19.reader_agrees", nil, "marbl.Reader and the independent parser disagree on frame %d: %v vs %+v", i, f, want)
			break
		}
	}
	if sharedPrefix {
		// "per message ID and type": frames of distinct (ID, type) pairs must be distinguishable
		fp, mp := map[string]bool{}, map[string]bool{}
		for _, f := range frames {
			fp[fmt.Sprintf("%s/%d", f.ID, f.MT)] = true
		}
		var ids []string
		for _, m := range msgs {
			mt := 2
			if m.isReq {
				mt = 1
			}
			mp[fmt.Sprintf("%s/%d", m.id, mt)] = true
			ids = append(ids, m.id)
		}
		if len(fp) < len(mp) && !closedEarly {
			k.Fail("C19.per_message_id", map[string]string{"ids": "share_first_8_bytes"}, "%d messages with the distinct IDs %v (%d distinct ID/type pairs) were logged; the frames carry only %d distinct ID/type pairs %v, so the frames of different messages cannot be told apart", len(msgs), ids, len(mp), len(fp), sortedKeys(fp))
		}
		return
	}
	for _, m := range msgs {
		desc := fmt.Sprintf("message %d (id %s, request=%v, body %dB, underlying reads %v, consumer reads %v)", m.idx, m.id[:8], m.isReq, len(m.under.data), clip(m.under.log), clip(m.log))
		mt := byte(2)
		if m.isReq {
			mt = 1
		}
		var hdrs, pseudo []string
		var data []mFrame
		for _, f := range frames {
			if f.ID != m.id[:8] || f.MT != mt {
				continue
			}
			if f.Kind == 1 {
				if strings.HasPrefix(f.Name, ":") {
					pseudo = append(pseudo, f.Name+"="+f.Value)
				} else {
					hdrs = append(hdrs, strings.ToLower(f.Name)+"="+f.Value)
				}
			} else {
				data = append(data, f)
			}
		}
		mu.Lock()
		done := m.done
		mu.Unlock()
		if !done {
			k.Fail("C19.wrapper_transparent", map[string]string{"stream_closed_early": fmt.Sprint(closedEarly)}, "%s: the consumer's read through the logging wrapper (or the call that logs the message) has not returned at quiescence; the underlying body never blocks", desc)
			continue
		}
		if closedEarly {
			// the log ends where the stream was closed: the data frames are a prefix of what the
			// consumer read, with contiguous indices
			var cat []byte
			for i, f := range data {
				if int(f.Index) != i {
					k.Fail("C19.data_indices", nil, "%s: data frame %d carries index %d", desc, i, f.Index)
					break
				}
				cat = append(cat, f.Data...)
			}
			if !bytes.HasPrefix(m.got, cat) {
				k.Fail("C19.data_bytes", nil, "%s: the stream was closed early; the %d bytes of the data frames are not a prefix of the %d bytes the consumer read", desc, len(cat), len(m.got))
			}
			if fmt.Sprint(m.log) != fmt.Sprint(m.under.log) {
				k.Fail("C19.wrapper_transparent", map[string]string{"stream_closed_early": "true"}, "%s: reads through the logging wrapper returned %v, the underlying body returned %v", desc, clip(m.log), clip(m.under.log))
			}
			continue
		}
		// headers: same multiset as the message
		var want []string
		for name, vs := range m.header {
			for _, v := range vs {
				want = append(want, strings.ToLower(name)+"="+v)
			}
		}
		// marbl logs the proxyutil header view, which adds Host / Content-Length for requests
		var got []string
		for _, h := range hdrs {
			if strings.HasPrefix(h, "host=") || strings.HasPrefix(h, "content-length=") || strings.HasPrefix(h, "transfer-encoding=") {
				continue
			}
			got = append(got, h)
		}
		sort.Strings(want)
		sort.Strings(got)
		if strings.Join(want, "|") != strings.Join(got, "|") {
			k.Fail("C19.headers_equal", map[string]string{"part": "headers"}, "%s: logged headers %v, message headers %v", desc, got, want)
		}
		wantPseudo := []string{":proto=" + m.proto}
		if m.isReq {
			wantPseudo = append(wantPseudo, ":method="+m.method, ":scheme="+m.scheme, ":authority="+m.host, ":path="+m.path, ":query="+m.query, ":remote="+m.remote)
		} else {
			wantPseudo = append(wantPseudo, fmt.Sprintf(":status=%d", m.status), fmt.Sprintf(":reason=%d Status", m.status))
		}
		for _, wp := range wantPseudo {
			found := false
			for _, p := range pseudo {
				if p == wp {
					found = true
				}
			}
			if !found {
				k.Fail("C19.headers_equal", map[string]string{"part": "pseudo"}, "%s: pseudo-header %q not logged (logged %v)", desc, wp, pseudo)
			}
		}
		// data frames: contiguous indices from 0, concatenation == what the consumer read
		var cat []byte
		for i, f := range data {
			if int(f.Index) != i {
				k.Fail("C19.data_indices", nil, "%s: data frame %d carries index %d", desc, i, f.Index)
				break
			}
			cat = append(cat, f.Data...)
			if f.Terminal && i != len(data)-1 {
				k.Fail("C19.terminal_flag", nil, "%s: data frame %d of %d is marked terminal", desc, i, len(data))
			}
		}
		if !bytes.Equal(cat, m.got) {
			d := firstDiff(cat, m.got)
			k.Fail("C19.data_bytes", nil, "%s: data frames carry %d bytes, the consumer read %d; first difference at offset %d", desc, len(cat), len(m.got), d)
		}
		lastTerminal := len(data) > 0 && data[len(data)-1].Terminal
		if lastTerminal != m.sawEOF {
			k.Fail("C19.terminal_flag", nil, "%s: last data frame terminal=%v, consumer reached end-of-file=%v", desc, lastTerminal, m.sawEOF)
		}
		// transparency: what the wrapper returned per read is what the underlying body returned
		if fmt.Sprint(m.log) != fmt.Sprint(m.under.log) {
			k.Fail("C19.wrapper_transparent", nil, "%s: reads through the logging wrapper returned %v, the underlying body returned %v", desc, clip(m.log), clip(m.under.log))
		}
		if !m.under.closed {
			k.Fail("C19.wrapper_transparent", nil, "%s: Close on the wrapper did not close the underlying body", desc)
		}
		if m.sawErr {
			k.FaultFired("body_read_error")
		}
		if m.maxReads > 0 && !m.sawEOF && !m.sawErr {
			k.FaultFired("consumer_early_close")
		}
	}
	if nmsg > 1 && interleave {
		k.Probe("concurrent_interleaved_messages")
	}
	// ---- part 2: the reader under stream faults ----
	if len(raw) > 0 && len(raw) <= 6000 {
		k.Probe("truncation_every_offset")
		for cut := 0; cut < len(raw); cut++ {
			c19Reader(k, raw[:cut], fmt.Sprintf("truncated at %d of %d", cut, len(raw)), "truncation")
			k.StepN++
		}
		k.FaultFired("stream_truncated_at_offset")
	}
	if len(raw) >= 19 {
		for i, n := 0, 40; i < n; i++ {
			mut := append([]byte(nil), raw[:min(len(raw), 4000)]...)
			kind := []string{"bitflip", "byte00", "byteff", "length_wrap", "length_huge", "type"}[w.Draw(6)]
			pos := w.Draw(len(mut))
			switch kind {
			case "bitflip":
				mut[pos] ^= 1 << uint(w.Draw(8))
			case "byte00":
				mut[pos] = 0
			case "byteff":
				mut[pos] = 0xff
			case "type":
				mut[0] = byte(w.Draw(4))
			case "length_wrap", "length_huge":
				// patch the length fields of the first header frame (offsets 10..17) or data frame
				off := 10
				if mut[0] == 2 {
					off = 15
				}
				if off+8 <= len(mut) {
					vals := [][2]uint32{{0xffffffff, 2}, {0xfffffffe, 5}, {0x80000000, 0x80000000}, {3, 0xfffffffe}, {0xffffffff, 0xffffffff}}
					if kind == "length_huge" {
						vals = [][2]uint32{{0x00ffffff, 0}, {0, 0x00800000}, {0x00400000, 0x00400000}}
					}
					v := vals[w.Draw(len(vals))]
					binary.BigEndian.PutUint32(mut[off:], v[0])
					if mut[0] == 1 {
						binary.BigEndian.PutUint32(mut[off+4:], v[1])
					}
				}
			}
			c19Reader(k, mut, fmt.Sprintf("%s at %d", kind, pos), kind)
			k.FaultFired("stream_corrupted_" + kind)
			k.StepN++
		}
	}
}

func clip(l []readRes) string {
	if len(l) > 8 {
		return fmt.Sprintf("%v...(%d)", l[:8], len(l))
	}
	return fmt.Sprint(l)
}

// c19AllocOK walks the stream the way the reader will and reports whether every buffer it is
// going to allocate from a length field stays below 64 MiB (a multi-GiB allocation is slow
// rather than wrong, and would only starve the batch).
func c19AllocOK(b []byte) bool {
	const limit = 64 << 20
	for len(b) >= 10 {
		kind := b[0]
		b = b[10:]
		switch kind {
		case 1:
			if len(b) < 8 {
				return true
			}
			nl, vl := binary.BigEndian.Uint32(b[:4]), binary.BigEndian.Uint32(b[4:8])
			sum := nl + vl // wraps like the reader's arithmetic
			if sum > limit {
				return false
			}
			if uint64(nl)+uint64(vl) != uint64(sum) || int(sum) > len(b)-8 {
				return true // the reader stops (or fails) here
			}
			b = b[8+int(sum):]
		case 2:
			if len(b) < 9 {
				return true
			}
			dl := binary.BigEndian.Uint32(b[5:9])
			if dl > limit {
				return false
			}
			if int(dl) > len(b)-9 {
				return true
			}
			b = b[9+int(dl):]
		default:
			return true
		}
	}
	return true
}

// c19Reader feeds bytes to the real frame reader; frames or an error, never a panic.
func c19Reader(k *kernel.K, b []byte, what, kind string) {
	if !c19AllocOK(b) {
		k.Probe("corruption_skipped_huge_allocation")
		return
	}
	defer func() {
		if r := recover(); r != nil {
			k.Fail("C19.reader_no_panic", map[string]string{"corruption": kind}, "marbl.Reader panicked on a %d-byte stream (%s): %v; first bytes % x", len(b), what, r, b[:min(len(b), 24)])
		}
	}()
	rd := marbl.NewReader(bytes.NewReader(b))
	for i := 0; i < 100000; i++ {
		if _, err := rd.ReadFrame(); err != nil {
			return
		}
	}
}
