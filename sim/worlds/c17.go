package worlds

import (
	"bytes"
	"fmt"
	"io"
	"net/http"
	"net/url"
	"strings"
	"sync"
	"time"

	"verifsim/kernel"

	"github.com/anishathalye/porcupine"
	"github.com/google/martian/v3/har"
)

// C17 — the HAR log returns every exchange once, in arrival order, across any history.
// World E: the real har.Logger called by 1..4 caller goroutines; request bodies are gated
// readers, so a RecordRequest can be in flight while other operations complete; every history
// is checked for linearizability against a sequential model with porcupine.

func init() {
	register(&World{
		Name: "C17", Prop: "C17", Run: runC17, MaxSteps: 4000,
		Real: []string{"har.Logger (RecordRequest, RecordResponse, Export, ExportAndReset, Reset)", "har.NewRequest / NewResponse (body snapshot)"},
		Stub: []string{"caller goroutines scheduled by the controller (bursts = concurrent invocations)", "gated request bodies", "sequential reference model + porcupine linearizability checker"},
	})
}

type c17In struct {
	Op string // req | resp | export | exportreset | reset
	ID string
}

type c17Out struct {
	Err     bool
	Entries string // "a1,b0" for export; "a,b" for exportreset
}

type c17Op struct {
	in      c17In
	out     c17Out
	caller  int
	gated   bool
	invStep int
	retStep int
	done    bool
}

func c17Model() porcupine.Model {
	return porcupine.Model{
		Init: func() interface{} { return "" },
		Step: func(state, input, output interface{}) (bool, interface{}) {
			st := state.(string)
			in := input.(c17In)
			out := output.(c17Out)
			var ents []string
			if st != "" {
				ents = strings.Split(st, ",")
			}
			find := func(id string) int {
				for i, e := range ents {
					if e[:len(e)-1] == id {
						return i
					}
				}
				return -1
			}
			switch in.Op {
			case "req":
				if find(in.ID) >= 0 {
					return out.Err, st
				}
				if out.Err {
					return false, st
				}
				return true, strings.Join(append(ents, in.ID+"0"), ",")
			case "resp":
				if i := find(in.ID); i >= 0 {
					ents[i] = in.ID + "1"
				}
				return true, strings.Join(ents, ",")
			case "export":
				return out.Entries == st, st
			case "exportreset":
				var done, keep []string
				for _, e := range ents {
					if strings.HasSuffix(e, "1") {
						done = append(done, e[:len(e)-1])
					} else {
						keep = append(keep, e)
					}
				}
				return out.Entries == strings.Join(done, ","), strings.Join(keep, ",")
			case "reset":
				return true, ""
			}
			return false, st
		},
		Equal: func(a, b interface{}) bool { return a.(string) == b.(string) },
		DescribeOperation: func(input, output interface{}) string {
			return fmt.Sprintf("%v -> %v", input, output)
		},
	}
}

type gatedBody struct {
	k     *kernel.K
	name  string
	data  *bytes.Reader
	first bool
}

func (g *gatedBody) Read(p []byte) (int, error) {
	if g.first {
		g.first = false
		g.k.Park(g.name)
	}
	return g.data.Read(p)
}
func (g *gatedBody) Close() error { return nil }

func runC17(k *kernel.K) {
	w := k.W
	l := har.NewLogger()
	k.AddSource(k.GateSource)
	// seam R8: a caller can be parked right before any mutex acquisition inside the logger
	har.VerifYieldHook = k.LockYield()
	defer func() { har.VerifYieldHook = nil }()
	ncall := w.Pick([]int{4, 2, 2, 2}) + 1 // 1..4 callers; one caller = sequential histories
	nops := w.Range(1, 12)
	if w.Chance(1, 4) {
		nops = w.Range(12, 40)
	}
	ids := []string{"a", "b", "c", "d"}[:2+w.Draw(3)]
	if nops <= 6 {
		ids = ids[:2]
	}
	var mu sync.Mutex
	var ops []*c17Op
	chans := make([]chan *c17Op, ncall)
	busy := make([]bool, ncall)
	exec := func(op *c17Op) {
		switch op.in.Op {
		case "req":
			body := io.ReadCloser(io.NopCloser(strings.NewReader("k=v-" + op.in.ID)))
			if op.gated {
				body = &gatedBody{k: k, name: fmt.Sprintf("body(%s,caller%d)", op.in.ID, op.caller), data: bytes.NewReader([]byte("k=v-" + op.in.ID)), first: true}
			}
			u, _ := url.Parse("http://origin.test/" + op.in.ID)
			req := &http.Request{Method: "POST", URL: u, Proto: "HTTP/1.1", ProtoMajor: 1, ProtoMinor: 1, Host: "origin.test",
				Header: http.Header{"Content-Type": {"application/x-www-form-urlencoded"}}, Body: body, ContentLength: int64(len("k=v-" + op.in.ID))}
			op.out.Err = l.RecordRequest(op.in.ID, req) != nil
		case "resp":
			res := &http.Response{StatusCode: 200, Proto: "HTTP/1.1", ProtoMajor: 1, ProtoMinor: 1, Header: http.Header{"Content-Type": {"text/plain"}},
				Body: io.NopCloser(strings.NewReader("resp-" + op.in.ID)), ContentLength: int64(len("resp-" + op.in.ID))}
			l.RecordResponse(op.in.ID, res)
		case "export":
			h := l.Export()
			if op.gated {
				k.Probe("export_read_later")
				k.Park(fmt.Sprintf("read-export(caller%d)", op.caller))
			}
			var parts []string
			for _, e := range h.Log.Entries {
				c17EntryDescribes(k, e, "Export")
				flag := "0"
				if e.Response != nil {
					flag = "1"
				}
				parts = append(parts, e.ID+flag)
			}
			op.out.Entries = strings.Join(parts, ",")
		case "exportreset":
			h := l.ExportAndReset()
			var parts []string
			for _, e := range h.Log.Entries {
				c17EntryDescribes(k, e, "ExportAndReset")
				if e.Response == nil {
					parts = append(parts, e.ID+"(pending!)")
				} else {
					parts = append(parts, e.ID)
				}
			}
			op.out.Entries = strings.Join(parts, ",")
		case "reset":
			l.Reset()
		}
	}
	for c := 0; c < ncall; c++ {
		c := c
		chans[c] = make(chan *c17Op, 1)
		go func() {
			for op := range chans[c] {
				exec(op)
				mu.Lock()
				op.retStep = k.StepN
				op.done = true
				busy[c] = false
				mu.Unlock()
			}
		}()
	}
	var seq []string
	issued := 0
	genOp := func(caller int) *c17Op {
		kind := []string{"req", "resp", "export", "exportreset", "reset"}[k.W.Pick([]int{6, 5, 3, 3, 1})]
		op := &c17Op{caller: caller, in: c17In{Op: kind}}
		if kind == "req" || kind == "resp" {
			op.in.ID = ids[k.W.Draw(len(ids))]
		}
		if kind == "req" && ncall > 1 {
			op.gated = k.W.Chance(1, 3)
		}
		if kind == "export" && ncall > 1 {
			// the caller looks at what Export handed it only later, as the export handler does when
			// it encodes the result after the call has returned
			op.gated = k.W.Chance(1, 3)
		}
		return op
	}
	invoke := func(caller int) {
		op := genOp(caller)
		mu.Lock()
		op.invStep = k.StepN
		busy[caller] = true
		ops = append(ops, op)
		mu.Unlock()
		issued++
		seq = append(seq, op.in.Op[:3]+op.in.ID)
		chans[caller] <- op
	}
	k.AddSource(func(add func(kernel.Action)) {
		if issued >= nops || k.Draining {
			return
		}
		var free []int
		mu.Lock()
		for c := 0; c < ncall; c++ {
			if !busy[c] {
				free = append(free, c)
			}
		}
		mu.Unlock()
		for _, c := range free {
			c := c
			add(kernel.Action{Key: fmt.Sprintf("caller%d invokes", c), W: 3, Class: kernel.Call, Do: func() { invoke(c) }})
		}
		if len(free) >= 2 {
			add(kernel.Action{Key: "burst: all free callers invoke at once", W: 3, Class: kernel.Call, Do: func() {
				k.Probe("burst")
				for _, c := range free {
					if issued < nops {
						invoke(c)
					}
				}
			}})
		}
	})
	k.StateFn = func() string { return strings.Join(seq, " ") }
	k.Note("callers=%d ops=%d ids=%v", ncall, nops, ids)
	for k.Step() {
	}
	k.ReleaseAll()
	k.Drain()
	for c := range chans {
		close(chans[c])
	}
	k.Settle()
	// ---- oracle: linearizability of the recorded history ----
	mu.Lock()
	hist := append([]*c17Op(nil), ops...)
	mu.Unlock()
	var pops []porcupine.Operation
	var render []string
	for _, op := range hist {
		if !op.done {
			k.Fail("C17.linearizable", nil, "operation %v by caller %d never returned", op.in, op.caller)
			return
		}
		pops = append(pops, porcupine.Operation{ClientId: op.caller, Input: op.in, Call: int64(2 * op.invStep), Output: op.out, Return: int64(2*op.retStep + 1)})
		render = append(render, fmt.Sprintf("c%d[%d..%d] %s%s->%v%s", op.caller, op.invStep, op.retStep, op.in.Op, op.in.ID, op.out.Err, op.out.Entries))
	}
	k.Note("history: %s", strings.Join(render, " ; "))
	res := porcupine.CheckOperationsTimeout(c17Model(), pops, 20*time.Second)
	switch res {
	case porcupine.Illegal:
		id := "C17.linearizable"
		params := map[string]string{"callers": "concurrent"}
		if ncall == 1 {
			id = "C17.sequential_model"
			params = nil
			// name the first operation the sequential model rejects
			st := interface{}("")
			m := c17Model()
			for _, op := range hist {
				ok, ns := m.Step(st, op.in, op.out)
				if !ok {
					params = map[string]string{"op": op.in.Op}
					break
				}
				st = ns
			}
		}
		k.Fail(id, params, "history of %d operations by %d caller(s) has no valid sequential explanation: %s", len(hist), ncall, strings.Join(render, " ; "))
	case porcupine.Unknown:
		k.Inconclusive = "porcupine_timeout"
	}
	if ncall == 1 && len(hist) <= 6 {
		k.Probe("sequential_len_le6_2ids")
	}
}

// c17EntryDescribes: whatever an export lists is an entry of the exchange with that ID (property
// C16 seen from the concurrent API: an entry must never be visible before its request is in it).
func c17EntryDescribes(k *kernel.K, e *har.Entry, op string) {
	if e.Request == nil {
		k.Fail("C16.request_fields", map[string]string{"field": "request_missing_in_export"}, "%s listed the entry of exchange %q without a request (the entry became visible before its request was recorded)", op, e.ID)
		return
	}
	if want := "http://origin.test/" + e.ID; e.Request.URL != want || e.Request.Method != "POST" {
		k.Fail("C16.request_fields", map[string]string{"field": "request_of_other_exchange"}, "%s listed the entry of exchange %q with request %s %s, want POST %s", op, e.ID, e.Request.Method, e.Request.URL, want)
	}
}
