package worlds

import (
	"bufio"
	"encoding/json"
	"fmt"
	"os"
	"runtime"
	"runtime/debug"
	"runtime/metrics"
	"sort"
	"strconv"
	"strings"
	"sync/atomic"
	"testing"
	"testing/cryptotest"
	"testing/synctest"
	"time"

	"verifsim/kernel"
)

// Result is one line of worker output.
type Result struct {
	Type    string             `json:"type"` // "result"
	World   string             `json:"world"`
	Run     int                `json:"run"`
	Seed    uint64             `json:"seed"`
	Verdict string             `json:"verdict"` // ok | violation | inconclusive
	Viols   []kernel.Violation `json:"violations,omitempty"`
	Inconcl string             `json:"inconclusive,omitempty"`
	Steps   int                `json:"steps"`
	SimNS   int64              `json:"sim_ns"`
	Faults  map[string]int     `json:"faults,omitempty"`
	Probes  map[string]int     `json:"probes,omitempty"`
	LogHash string             `json:"log_hash"`
	NStates int                `json:"n_states"`
	Sample  []string           `json:"sample,omitempty"`
	WTape   []uint32           `json:"wtape,omitempty"`
	STape   []uint32           `json:"stape,omitempty"`
	Trace   []string           `json:"trace,omitempty"`
	Leaked  bool               `json:"leaked,omitempty"`
	WallUS  int64              `json:"wall_us"`
	Overrun int                `json:"overrun,omitempty"`
}

// ReplayFile is the on-disk format of a failing (or any) run.
type ReplayFile struct {
	Property string   `json:"property"`
	World    string   `json:"world"`
	Seed     uint64   `json:"seed"`
	WTape    []uint32 `json:"wtape"`
	STape    []uint32 `json:"stape"`
	CheckKey string   `json:"check_key,omitempty"`
	Text     string   `json:"text,omitempty"`
	LogHash  string   `json:"log_hash,omitempty"`
}

func splitmix(x uint64) uint64 {
	x += 0x9e3779b97f4a7c15
	z := x
	z = (z ^ (z >> 30)) * 0xbf58476d1ce4e5b9
	z = (z ^ (z >> 27)) * 0x94d049bb133111eb
	return z ^ (z >> 31)
}

func runOne(t *testing.T, w *World, run int, seed uint64, rp *ReplayFile, trace bool) (res Result) {
	res = Result{Type: "result", World: w.Name, Run: run, Seed: seed}
	cryptotest.SetGlobalRandom(t, seed)
	start := time.Now()
	var k *kernel.K
	func() {
		defer func() {
			if r := recover(); r != nil {
				msg := fmt.Sprint(r)
				if strings.Contains(msg, "blocked goroutines remain") || strings.Contains(msg, "deadlock:") {
					res.Leaked = true
					return
				}
				panic(r)
			}
		}()
		synctest.Test(t, func(t *testing.T) {
			var wt, st *kernel.Tape
			if rp != nil && (rp.WTape != nil || rp.STape != nil) {
				wt, st = kernel.ReplayTape(rp.WTape), kernel.ReplayTape(rp.STape)
			} else {
				wt, st = kernel.NewTape(seed, 1), kernel.NewTape(seed, 2)
			}
			k = kernel.NewK(seed, wt, st, trace)
			if w.MaxSteps > 0 {
				k.MaxSteps = w.MaxSteps
			}
			w.Run(k)
			res.SimNS = int64(k.Now())
		})
	}()
	res.WallUS = time.Since(start).Microseconds()
	if k == nil {
		res.Verdict = "inconclusive"
		res.Inconcl = "no_kernel"
		return
	}
	res.Steps = k.StepN
	res.Faults, res.Probes = k.Faults, k.Probes
	res.LogHash = k.LogHash()
	res.NStates = len(k.States)
	res.Sample = k.Sample
	res.Overrun = k.W.Overrun + k.S.Overrun
	for fp := range k.States {
		workerStates[fp] = struct{}{}
	}
	switch {
	case len(k.Viols) > 0:
		res.Verdict = "violation"
		res.Viols = k.Viols
		res.WTape, res.STape = k.W.Values(), k.S.Values()
	case k.Inconclusive != "":
		res.Verdict = "inconclusive"
		res.Inconcl = k.Inconclusive
	default:
		res.Verdict = "ok"
	}
	if trace {
		res.Trace = k.Lines
		res.WTape, res.STape = k.W.Values(), k.S.Values()
	}
	return
}

var workerStates = map[uint64]struct{}{}

var heapSample = []metrics.Sample{{Name: "/memory/classes/heap/objects:bytes"}}

func collectIfNeeded(done int) {
	metrics.Read(heapSample)
	if heapSample[0].Value.Uint64() > 128<<20 || done%16 == 0 {
		runtime.GC()
	}
}

// TestWorker is the worker entry point; it is driven entirely by environment variables.
func TestWorker(t *testing.T) {
	wname := os.Getenv("VERIF_WORLD")
	if wname == "" {
		t.Skip("VERIF_WORLD not set")
	}
	w := Worlds[wname]
	if w == nil {
		t.Fatalf("unknown world %q", wname)
	}
	if runtime.GOMAXPROCS(0) != 1 && os.Getenv("VERIF_ANYPROCS") == "" {
		runtime.GOMAXPROCS(1)
	}
	out := bufio.NewWriterSize(os.Stdout, 1<<16)
	if p := os.Getenv("VERIF_OUT"); p != "" {
		f, err := os.Create(p)
		if err != nil {
			t.Fatal(err)
		}
		defer f.Close()
		out = bufio.NewWriterSize(f, 1<<16)
	}
	emit := func(v any) {
		b, _ := json.Marshal(v)
		out.Write(b)
		out.WriteByte('\n')
		out.Flush()
	}
	trace := os.Getenv("VERIF_TRACE") != ""
	// No garbage collection while a run is in progress (it would make quiescence detection
	// and the run-queue order depend on heap state); collect between runs instead.
	debug.SetGCPercent(-1)
	debug.SetMemoryLimit(6 << 30)

	// The local time zone is loaded lazily on first use (open/read of /etc/localtime): make that
	// happen here, not in a goroutine of the system inside a run, where a real system call is a
	// window in which the goroutine is invisible to the quiescence counters.
	_, _ = time.Now().In(time.Local).Zone()

	// The watchdog is in the runner (./check), not here: a goroutine that wakes on a real timer
	// would be placed in front of whatever goroutine of the system happened to be next in line.
	var lastRun atomic.Int64

	if w.WarmCrypto {
		cryptotest.SetGlobalRandom(t, 1)
		synctest.Test(t, func(t *testing.T) { cryptoWarmUp() })
	}

	if rf := os.Getenv("VERIF_REPLAY"); rf != "" {
		b, err := os.ReadFile(rf)
		if err != nil {
			t.Fatal(err)
		}
		var rp ReplayFile
		if err := json.Unmarshal(b, &rp); err != nil {
			t.Fatal(err)
		}
		emit(map[string]any{"type": "start", "run": 0, "seed": rp.Seed})
		res := runOne(t, w, 0, rp.Seed, &rp, trace)
		emit(res)
		return
	}

	base, _ := strconv.ParseUint(os.Getenv("VERIF_SEED"), 10, 64)
	from, _ := strconv.Atoi(os.Getenv("VERIF_RUN_FROM"))
	count, _ := strconv.Atoi(os.Getenv("VERIF_RUN_COUNT"))
	if count == 0 {
		count = 1
	}
	budget, _ := strconv.ParseFloat(os.Getenv("VERIF_WORKER_SECONDS"), 64)
	t0 := time.Now()
	done := 0
	for i := from; i < from+count; i++ {
		if budget > 0 && time.Since(t0).Seconds() > budget {
			break
		}
		seed := splitmix(base ^ splitmix(uint64(i)))
		lastRun.Store(int64(i))
		emit(map[string]any{"type": "start", "run": i, "seed": seed})
		res := runOne(t, w, i, seed, nil, trace)
		emit(res)
		done++
		collectIfNeeded(done)
		if res.Leaked && (os.Getenv("VERIF_EXIT_ON_LEAK") != "" || res.Verdict == "violation") {
			// A violating run that left goroutines behind may also have left package-level state
			// of the system behind (a registry lock that is deadlocked for good, say): the runs
			// after it get a fresh process.
			break
		}
	}
	fps := make([]uint64, 0, len(workerStates))
	for fp := range workerStates {
		fps = append(fps, fp)
	}
	sort.Slice(fps, func(i, j int) bool { return fps[i] < fps[j] })
	if len(fps) > 300000 {
		fps = fps[:300000]
	}
	emit(map[string]any{"type": "end", "from": from, "done": done, "states": fps})
}
