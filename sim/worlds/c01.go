package worlds

import (
	"bytes"
	"compress/gzip"
	"fmt"
	"os"
	"strings"
	"time"

	"verifsim/kernel"
	"verifsim/simnet"
	"verifsim/wire"
)

// C01 — HTTP/1 relay preserves every request and response, one-to-one and in order.

func init() {
	register(&World{
		Name: "C01", Prop: "C01", Run: runC01, MaxSteps: 60000,
		Real: []string{"martian.Proxy (Serve, handleLoop, readRequest, handle, roundTrip)", "net/http.Transport + http.ReadRequest/Response.Write", "proxyutil"},
		Stub: append([]string{"raw scripted clients (exact bytes, pipelining)", "raw scripted origins (exact framing)"}, commonStub...),
	})
}

var c01Methods = []string{"GET", "POST", "HEAD", "PUT", "DELETE", "OPTIONS", "PATCH"}
var c01Sizes = []int{0, 1, 17, 300, 4095, 4096, 4097, 32767, 32768, 32769, 65536, 1 << 20, 4 << 20}
var c01SizeW = []int{6, 4, 6, 6, 3, 3, 3, 2, 2, 2, 3, 2, 0}
var c01Segs = []string{"a", "Ab%20c", "x;y=1", "p+q", "%41b", "a%2Fb", "d.e_f~g", "k:l@m", "n!o$p&q'r", "s(t)*u,v"}
var c01Queries = []string{"a=1", "a=1&b=2&a=3", "q=%20%2B+z", "k", "x=%41&y=", "u=http%3A%2F%2Fh%2Fp%3Fq"}
var c01HdrNames = []string{"X-Alpha", "x-beta", "X-GAMMA", "Accept", "Cookie", "X-Empty", "User-Agent", "X-Dup", "Accept-Language", "Cache-Control", "If-None-Match", "Authorization"}
var c01HdrVals = []string{"v1", "two words", "a, b", "", "x=1; y=2", "\"quoted\"", "*/*", "0", "en;q=0.8", "W/\"etag\""}
var c01RespHdr = []string{"X-Origin", "Set-Cookie", "ETag", "Cache-Control", "x-lower", "X-Dup", "Content-Type", "Vary", "Last-Modified", "Location"}

type c01Ex struct {
	id                int
	req               *ReqSpec
	resp              *RespSpec
	gzipOK            bool      // origin compresses when asked with Accept-Encoding: gzip
	sentResp          *RespSpec // what the origin actually sent (after the gzip decision)
	conn              int
	early, earlyFired bool // the origin answers after the head and reads no further
}

func c01Gzip(b []byte) []byte {
	var buf bytes.Buffer
	zw, _ := gzip.NewWriterLevel(&buf, gzip.BestSpeed)
	zw.Write(b)
	zw.Close()
	return buf.Bytes()
}

func genReq(k *kernel.K, id int, hosts []string, maxSize int) *ReqSpec {
	w := k.W
	r := &ReqSpec{ID: id, Method: c01Methods[w.Pick([]int{6, 5, 2, 3, 2, 1, 2})], Host: hosts[w.Draw(len(hosts))]}
	r.Abs = !w.Chance(1, 3)
	r.Path = fmt.Sprintf("/x%d", id)
	for i, n := 0, w.Draw(4); i < n; i++ {
		r.Path += "/" + c01Segs[w.Draw(len(c01Segs))]
	}
	if w.Chance(1, 6) {
		r.Path += "/"
	}
	switch w.Pick([]int{4, 4, 1}) {
	case 1:
		r.HasQ = true
		r.Query = c01Queries[w.Draw(len(c01Queries))]
	case 2:
		r.HasQ = true
	}
	used := map[string]bool{}
	for i, n := 0, w.Draw(9); i < n; i++ {
		name := c01HdrNames[w.Draw(len(c01HdrNames))]
		// Same-name fields keep one spelling so that "same values per name" is unambiguous.
		if used[strings.ToLower(name)] && !w.Chance(1, 2) {
			continue
		}
		used[strings.ToLower(name)] = true
		val := c01HdrVals[w.Draw(len(c01HdrVals))]
		if val != "" {
			val = fmt.Sprintf("%s-%d-%d", val, id, i)
		}
		r.Header = append(r.Header, wire.HF{Name: name, Value: val})
	}
	if w.Chance(1, 5) {
		r.Header = append(r.Header, wire.HF{Name: "Accept-Encoding", Value: []string{"gzip", "identity", "br, gzip;q=0.5"}[w.Draw(3)]})
	}
	hasBody := r.Method == "POST" || r.Method == "PUT" || r.Method == "PATCH" || (r.Method == "DELETE" && w.Chance(1, 3))
	if hasBody {
		sz := c01Sizes[w.Pick(c01SizeW)]
		if sz > maxSize {
			sz = maxSize
		}
		r.Body = bodyBytes(id, 'q', sz)
		r.Framing = "cl"
		if w.Chance(2, 5) {
			r.Framing = "chunked"
			for i, n := 0, w.Draw(4); i < n; i++ {
				r.Chunks = append(r.Chunks, []int{1, 7, 100, 4096, 5000, 65536}[w.Draw(6)])
			}
			if w.Chance(1, 4) {
				r.Trailer = []wire.HF{{Name: "X-Req-Trailer", Value: fmt.Sprint("t", id)}}
			}
		}
	}
	if w.Chance(1, 12) {
		r.Proto = "HTTP/1.0"
		if r.Framing == "chunked" {
			r.Framing = "cl"
			r.Chunks, r.Trailer = nil, nil
		}
		if w.Chance(1, 2) {
			// an HTTP/1.0 client that asks for a persistent connection
			r.Header = append(r.Header, wire.HF{Name: "Connection", Value: "keep-alive"})
			k.Probe("http10_client_asks_keep_alive")
		}
	}
	return r
}

func genResp(k *kernel.K, id int, method string, maxSize int) *RespSpec {
	w := k.W
	rs := &RespSpec{Status: []int{200, 201, 404, 500, 204, 304, 302, 206, 403}[w.Pick([]int{8, 2, 2, 2, 2, 1, 1, 1, 1})]}
	used := map[string]bool{}
	for i, n := 0, w.Draw(6); i < n; i++ {
		name := c01RespHdr[w.Draw(len(c01RespHdr))]
		if used[strings.ToLower(name)] && !w.Chance(1, 2) {
			continue
		}
		used[strings.ToLower(name)] = true
		val := fmt.Sprintf("r%d-%d %s", id, i, c01HdrVals[w.Draw(len(c01HdrVals))])
		rs.Header = append(rs.Header, wire.HF{Name: name, Value: strings.TrimSpace(val)})
	}
	sz := c01Sizes[w.Pick(c01SizeW)]
	if sz > maxSize {
		sz = maxSize
	}
	rs.Body = bodyBytes(id, 'r', sz)
	switch w.Pick([]int{5, 4, 2}) {
	case 0:
		rs.Framing = "cl"
	case 1:
		rs.Framing = "chunked"
		for i, n := 0, w.Draw(4); i < n; i++ {
			rs.Chunks = append(rs.Chunks, []int{1, 7, 100, 4096, 5000, 65536}[w.Draw(6)])
		}
	case 2:
		rs.Framing = "close"
	}
	if w.Chance(1, 10) {
		rs.Proto = "HTTP/1.0"
		if rs.Framing == "chunked" {
			rs.Framing = "close"
			rs.Chunks = nil
		}
	}
	if rs.Status == 204 || rs.Status == 304 {
		rs.Framing = "none"
		rs.Body = nil
	}
	if method == "HEAD" {
		if w.Chance(1, 2) {
			rs.HeadCL = len(rs.Body)
		} else if rs.Framing == "chunked" && w.Chance(1, 2) {
			// the header fields the GET would have had, framing included (RFC 7230 section 3.3.1)
			rs.Header = append(rs.Header, wire.HF{Name: "Transfer-Encoding", Value: "chunked"})
			rs.HeadChunked = true
		}
		rs.Body = nil
		if rs.Framing == "close" {
			rs.Framing = "cl"
		}
	}
	if rs.Framing != "close" && w.Chance(1, 8) {
		rs.Close = true
	}
	return rs
}

func respAsksClose(rs *RespSpec, method string) bool {
	if rs.Close {
		return true
	}
	bodiless := method == "HEAD" || rs.Status == 204 || rs.Status == 304 || rs.Framing == "none"
	if rs.Framing == "close" && !bodiless {
		return true
	}
	if rs.Proto == "HTTP/1.0" {
		return true
	}
	return false
}

func reqAsksClose(r *ReqSpec) bool {
	if r.Proto == "HTTP/1.0" {
		for _, h := range r.Header {
			if strings.EqualFold(h.Name, "Connection") && strings.EqualFold(h.Value, "keep-alive") {
				return r.Close
			}
		}
		return true
	}
	return r.Close
}

// c01Downgraded: a chunked origin response for an HTTP/1.0 client is passed on without chunk
// framing and without a length - its end is the end of the connection, so the proxy has to say so
// and to close, even if the client asked for a persistent connection.
func c01Downgraded(ex *c01Ex) bool {
	return ex.req.Proto == "HTTP/1.0" && ex.req.Method != "HEAD" && ex.sentResp != nil && ex.sentResp.Framing == "chunked"
}

func runC01(k *kernel.K) {
	w := k.W
	n := simnet.New(k)
	big := w.Chance(1, 6)
	maxSize := 70000
	if big {
		maxSize = 4 << 20
		n.DefaultPolicy = []simnet.ChunkPolicy{simnet.ChunkAll, simnet.ChunkHuge}[w.Draw(2)]
		n.DefaultCap = []int{0, 65536, 4096 * 16}[w.Draw(3)]
	} else {
		n.DefaultPolicy = simnet.ChunkPolicy(w.Pick([]int{4, 3, 2, 1, 0, 3}))
		n.DefaultCap = []int{0, 4096, 65536, 1000}[w.Pick([]int{3, 2, 2, 1})]
		if n.DefaultPolicy == simnet.ChunkSmall || n.DefaultPolicy == simnet.ChunkMed {
			maxSize = 5000
		}
	}
	n.TCPLikeConns = w.Chance(1, 2)
	n.ResetOnCloseWithUnread = n.TCPLikeConns && w.Chance(1, 2) // close(2) with unread input resets a TCP connection
	if n.ResetOnCloseWithUnread {
		k.Probe("network_resets_on_close_with_unread_input")
	}
	proxy, l := newProxyA(k, n)
	// Idle timeout of the proxy (default 5 minutes); idle gaps between requests stay below it.
	timeout := 5 * time.Minute
	if w.Chance(1, 3) {
		timeout = []time.Duration{10 * time.Second, 90 * time.Second}[w.Draw(2)]
		proxy.SetTimeout(timeout)
	}
	gaps := w.Chance(1, 2)

	exs := map[int]*c01Ex{}
	hosts := []string{"origin-a.test", "origin-b.test:8081"}
	addrs := map[string]string{"origin-a.test": "origin-a.test:80", "origin-b.test:8081": "origin-b.test:8081"}
	plan := func(oc *OConn, req *wire.Msg) *Reply {
		id := exchangeID(req.Target)
		ex := exs[id]
		if ex == nil {
			return &Reply{Raw: []byte("HTTP/1.1 500 Unplanned\r\nContent-Length: 0\r\n\r\n")}
		}
		rs := *ex.resp
		if ex.gzipOK && len(rs.Body) > 0 {
			for _, t := range req.TokenList("Accept-Encoding") {
				if strings.HasPrefix(t, "gzip") {
					rs.Body = c01Gzip(rs.Body)
					rs.Header = append(append([]wire.HF(nil), rs.Header...), wire.HF{Name: "Content-Encoding", Value: "gzip"})
					k.Probe("origin_sent_gzip")
					break
				}
			}
		}
		ex.sentResp = &rs
		return &Reply{Raw: rs.Encode(req.Method), CloseAfter: respAsksClose(&rs, req.Method), Spec: &rs}
	}
	var origins []*Origin
	for _, h := range hosts {
		o := NewOrigin(k, n, addrs[h], plan)
		// An origin that has made up its mind after the head (a 403, a 413, or simply an eager
		// server): it answers at once and takes no more of the request body off the wire.
		o.Early = func(oc *OConn, head *wire.Msg) *Reply {
			ex := exs[exchangeID(head.Target)]
			if ex == nil || !ex.early {
				return nil
			}
			ex.earlyFired = true
			k.Probe("origin_answers_before_reading_the_body")
			return plan(oc, head)
		}
		origins = append(origins, o)
	}

	nconn := w.Range(1, 3)
	var clients []*Client
	id := 1
	for ci := 0; ci < nconn; ci++ {
		c := NewClient(k, l, fmt.Sprintf("cl%d", ci), fmt.Sprintf("10.1.0.%d", ci+2))
		clients = append(clients, c)
		nreq := w.Range(1, 6)
		if big {
			nreq = w.Range(1, 2)
		}
		for j := 0; j < nreq; j++ {
			r := genReq(k, id, hosts, maxSize)
			rs := genResp(k, id, r.Method, maxSize)
			last := j == nreq-1
			if !last {
				// Only the last exchange of a connection may ask to close.
				r.Proto = ""
				if rs.Proto == "HTTP/1.0" {
					rs.Proto = ""
				}
				rs.Close = false
				if rs.Framing == "close" {
					rs.Framing = "cl"
				}
			} else if w.Chance(1, 4) {
				r.Close = true
			}
			r.Pipelined = j > 0 && w.Chance(1, 3)
			ex := &c01Ex{id: id, req: r, resp: rs, conn: ci, gzipOK: w.Chance(1, 4)}
			ex.early = !big && !last && len(r.Body) >= 20000 && w.Chance(1, 2)
			if ex.early {
				// (small socket buffers towards the origins: most of the body is still on its way
				// through the proxy when the origin answers)
				for _, o := range origins {
					o.AcceptCap = 4096
				}
				c.C.SetCap(4096) // (and on the client's side too)
			}
			exs[id] = ex
			it := c.Add(r)
			if r.Pipelined && w.Chance(1, 3) && len(it.Raw) > 2 {
				it.SplitAt = 1 + w.Draw(len(it.Raw)-1)
			}
			k.Note("c%d #%d %s %s %s body=%s/%d pipelined=%v close=%v -> %d %s/%d proto=%s close=%v gzipIfAsked=%v", ci, id, r.Method, r.Target(), r.Proto, r.Framing, len(r.Body), r.Pipelined, r.Close, rs.Status, rs.Framing, len(rs.Body), rs.Proto, rs.Close, ex.gzipOK)
			id++
		}
	}
	// A client cannot know that the origin will ask to close after its last exchange: it may have
	// pipelined more behind it - a few bytes or a megabyte. None of that is served (the connection
	// closes), but the last response must reach the client whole all the same, on a network that
	// resets a connection closed with unread input too.
	tails := map[int][]byte{}
	tailSent := map[int]bool{}
	for ci, c := range clients {
		lastEx := exs[c.Script[len(c.Script)-1].Spec.ID]
		if respAsksClose(lastEx.resp, lastEx.req.Method) && !reqAsksClose(lastEx.req) && w.Chance(1, 3) {
			size := []int{50, 5000, 70000, 300000, 1 << 20}[w.Pick([]int{2, 2, 2, 2, 1})]
			tails[ci] = append([]byte(fmt.Sprintf("POST http://origin-a.test/x900%d/tail HTTP/1.1\r\nHost: origin-a.test\r\nContent-Length: %d\r\n\r\n", ci, size)), bodyBytes(900+ci, 't', size)...)
		}
	}
	if len(tails) > 0 {
		k.AddSource(func(add func(kernel.Action)) {
			if k.Draining {
				return
			}
			for ci, c := range clients {
				ci, c := ci, c
				if tails[ci] == nil || tailSent[ci] || !c.Alive() || c.NextIndex() < len(c.Script) {
					continue
				}
				add(kernel.Action{Key: fmt.Sprintf("%s pipelines a tail", c.Name), W: 3, Class: kernel.Actor, Do: func() {
					tailSent[ci] = true
					k.Probe(fmt.Sprintf("pipelined_tail_behind_closing_response_%dB", len(tails[ci])))
					c.C.Inject(tails[ci])
				}})
			}
		})
	}
	k.StateFn = func() string {
		var sb strings.Builder
		sb.WriteString(n.Fingerprint())
		for _, c := range clients {
			sb.WriteString("|" + c.State())
		}
		for _, o := range origins {
			sb.WriteString("|" + o.State())
		}
		return sb.String()
	}

	// Idle gaps: while no exchange is in flight anywhere, let simulated time pass, but never so
	// long that any connection has been idle for the proxy's timeout (it may close it then).
	if gaps {
		k.AddSource(func(add func(kernel.Action)) {
			pending := false
			for _, c := range clients {
				if !c.Idle() {
					return
				}
				if c.Alive() && c.NextIndex() < len(c.Script) {
					pending = true
				}
			}
			if !pending {
				return
			}
			slack := timeout
			for _, c := range clients {
				if !c.Alive() {
					continue
				}
				last := c.LastResp
				if c.LastSend > last {
					last = c.LastSend
				}
				if rem := timeout - (k.Now() - last); rem < slack {
					slack = rem
				}
			}
			slack -= time.Second
			if slack < time.Second {
				return
			}
			add(kernel.Action{Key: "idle gap", W: 2, Class: kernel.Clock, Do: func() {
				d := time.Duration(1+k.S.Draw(int(slack/time.Second))) * time.Second
				k.Probe("idle_gap")
				k.Advance(d)
			}})
		})
	}
	// Think time: an origin that has a request takes a while (less than the proxy's timeout) before
	// it answers. The timeout bounds an exchange, or an idle wait - not the sum of the idle wait
	// before a request and the time that request then takes.
	if gaps {
		thought := map[string]bool{}
		k.AddSource(func(add func(kernel.Action)) {
			if k.Draining || timeout <= 4*time.Second {
				return
			}
			for oi, o := range origins {
				for ci, oc := range o.Conns {
					if oc.Closed || oc.SawRST || oc.Replied >= len(oc.P.Msgs) {
						continue
					}
					key := fmt.Sprintf("%d.%d.%d", oi, ci, oc.Replied)
					if thought[key] {
						continue
					}
					// (connections that are idle meanwhile must not reach the timeout: the proxy may
					// close those)
					max := timeout - 3*time.Second
					busy := 0
					for _, c := range clients {
						if c.Alive() && !c.Idle() {
							busy++
						}
					}
					if busy != 1 || n.InFlightTotal() > 0 {
						// (only while this exchange is the only thing going on and nothing is on
						// the wire: time that passes for a request still in flight elsewhere is
						// that connection's idle time)
						return
					}
					for _, c := range clients {
						if !c.Alive() || !c.Idle() {
							continue
						}
						last := c.LastResp
						if c.LastSend > last {
							last = c.LastSend
						}
						if rem := timeout - (k.Now() - last) - 2*time.Second; rem < max {
							max = rem
						}
					}
					if max < time.Second {
						return
					}
					add(kernel.Action{Key: "origin thinks " + key, W: 1, Class: kernel.Clock, Do: func() {
						thought[key] = true
						d := time.Duration(1+k.S.Draw(int(max/time.Second))) * time.Second
						k.Probe("origin_think_time")
						k.Advance(d)
					}})
					return
				}
			}
		})
	}
	allDone := func() bool {
		for _, c := range clients {
			if !c.Done() {
				return false
			}
		}
		return true
	}
	k.RunUntil(allDone)
	// After an early answer net/http's transport waits up to 50 ms for the request write to end
	// before it decides about the connection (and before it lets the reader of the response body see
	// its end): when nothing else can happen, some time has to pass.
	// The origin that answered early reads on only when everything else has come to rest.
	for tries := 0; tries < 12 && k.Inconclusive == ""; tries++ {
		fired := false
		for _, ex := range exs {
			fired = fired || ex.earlyFired
		}
		if !fired {
			break
		}
		resumed := false
		if tries%2 == 1 {
			for _, o := range origins {
				resumed = o.ResumeEarly() || resumed
			}
		}
		if allDone() && !resumed {
			break
		}
		// (a short step: what the proxy does when the wait ends reaches the clients right after it,
		// so that their view of when the connection became idle stays within the idle gaps' margin)
		k.Advance(60 * time.Millisecond)
		k.RunUntil(allDone)
	}
	if !allDone() && os.Getenv("VERIF_DEBUG_CENSUS") != "" {
		k.Note("CENSUS net/http: %s", kernel.FormatSummary(kernel.CensusSummary(k.Census(), "net/http.")))
		k.Note("CENSUS martian: %s", kernel.FormatSummary(kernel.CensusSummary(k.Census(), "martian/v3.")))
	}
	k.Drain()
	if k.Inconclusive != "" {
		n.Shutdown()
		k.Settle()
		return
	}

	// ---- oracle ----
	got := map[int][]*wire.Msg{}
	for _, o := range origins {
		for _, m := range o.Requests() {
			got[exchangeID(m.Target)] = append(got[exchangeID(m.Target)], m)
		}
	}
	for _, c := range clients {
		fin := c.P.Final()
		if c.P.Err != nil {
			k.Fail("C01.resp_count_order", nil, "%s: response stream is not well-formed HTTP: %v (after %d responses)", c.Name, c.P.Err, len(fin))
		}
		for j, it := range c.Script {
			ex := exs[it.Spec.ID]
			r := ex.req
			oms := got[r.ID]
			if !it.Sent {
				k.Fail("C01.keepalive", nil, "%s: request #%d could not be sent: connection ended early (eof=%v rst=%v) although nobody asked to close", c.Name, r.ID, c.SawEOF, c.SawRST)
				break
			}
			if len(oms) != 1 {
				k.Fail("C01.req_once", nil, "request #%d (%s %s) reached the origin %d times", r.ID, r.Method, r.Target(), len(oms))
			}
			if len(oms) >= 1 {
				c01CheckRequest(k, r, oms[0], ex.earlyFired)
			}
			if j >= len(fin) {
				pd := ""
				if c.P.Cur != nil {
					pd = fmt.Sprintf(" partial: status=%d framing=%s declaredCL=%d body=%dB headers=%v", c.P.Cur.Status, c.P.Cur.Framing, c.P.Cur.DeclaredCL, len(c.P.Cur.Body), c.P.Cur.Header)
				}
				k.Fail("C01.resp_count_order", nil, "%s: no response for request #%d (%d responses for %d requests; eof=%v)%s", c.Name, r.ID, len(fin), len(c.Script), c.SawEOF, pd)
				continue
			}
			if ex.sentResp != nil {
				c01CheckResponse(k, ex, fin[j])
			}
		}
		if len(fin) > len(c.Script) {
			k.Fail("C01.resp_count_order", nil, "%s: %d responses for %d requests", c.Name, len(fin), len(c.Script))
		}
		// What a response says about the connection is part of it: "Connection: close" when neither
		// side asked to close tells a client not to send its next request here (and, when the proxy
		// then does not close either, to wait for a close that never comes).
		for j := 0; j < len(fin) && j < len(c.Script); j++ {
			ex := exs[c.Script[j].Spec.ID]
			if fin[j].WantsClose() && !reqAsksClose(ex.req) && !(ex.sentResp != nil && respAsksClose(ex.sentResp, ex.req.Method)) && !c01Downgraded(ex) {
				closed := j == len(fin)-1 && (c.SawEOF || c.SawRST)
				k.Fail("C01.keepalive", map[string]string{"announced": "close_nobody_asked_for", "method": ex.req.Method}, "%s: the response to request #%d (%s, origin response %d framed %q) announces Connection: close although neither the client nor the origin asked to close; the proxy closed the connection afterwards: %v", c.Name, ex.id, ex.req.Method, ex.sentResp.Status, ex.sentResp.Framing, closed)
				break
			}
		}
		// Close behaviour.
		lastIt := c.Script[len(c.Script)-1]
		lastEx := exs[lastIt.Spec.ID]
		who := "none"
		if reqAsksClose(lastEx.req) {
			who = "client"
		} else if lastEx.sentResp != nil && respAsksClose(lastEx.sentResp, lastEx.req.Method) {
			who = "origin"
		} else if c01Downgraded(lastEx) {
			who = "proxy_for_http10_client"
		}
		if len(fin) == len(c.Script) && c.P.Err == nil {
			if who == "none" {
				if c.SawEOF || c.SawRST {
					k.Fail("C01.keepalive", nil, "%s: proxy closed the connection although neither side asked to close", c.Name)
				} else {
					k.Probe("kept_alive")
				}
			} else {
				k.Probe("close_" + who)
				if !c.SawEOF && !c.SawRST {
					k.Fail("C01.close", map[string]string{"who_asked": who}, "%s: %s asked to close on exchange #%d but the connection is still open at network quiescence", c.Name, who, lastEx.id)
				}
				if len(c.P.Raw) > 0 || c.P.Cur != nil {
					k.Fail("C01.close", map[string]string{"who_asked": who}, "%s: extra bytes after the final response", c.Name)
				}
			}
		}
	}
	for _, c := range clients {
		c.CloseNow()
	}
	k.Drain()
	n.Shutdown()
	k.Settle()
}

// c01CheckRequest: early is set when the origin answered after the head and stopped reading - what
// it has of the body is then a prefix at best.
func c01CheckRequest(k *kernel.K, r *ReqSpec, m *wire.Msg, early bool) {
	form := "origin"
	if r.Abs {
		form = "absolute"
	}
	if m.Method != r.Method || m.Target != r.PathQuery() {
		k.Fail("C01.req_line", map[string]string{"method": r.Method, "target_form": form}, "request #%d: client sent %s %s, origin received %s %s", r.ID, r.Method, r.Target(), m.Method, m.Target)
	}
	if h := m.First("Host"); h != r.Host {
		k.Fail("C01.req_headers", map[string]string{"name": "host"}, "request #%d: Host %q became %q", r.ID, r.Host, h)
	}
	sent := endToEnd(r.Header, nil)
	recv := wire.HeaderMap(m.Header)
	for _, name := range sortedKeys(sent) {
		if !sameValues(sent[name], recv[name]) {
			detail := "changed"
			// What net/http's Request.Write makes of a User-Agent-like field: first value only,
			// omitted when that value is empty.
			var first []string
			if sent[name][0] != "" {
				first = sent[name][:1]
			}
			if sameValues(first, recv[name]) {
				detail = "first_value_only_empty_omitted"
			}
			k.Fail("C01.req_headers", map[string]string{"name": name, "detail": detail}, "request #%d: header %s sent as %q, origin received %q", r.ID, name, sent[name], recv[name])
		}
	}
	if early && !m.Complete {
		if !bytes.HasPrefix(r.Body, m.Body) {
			k.Fail("C01.req_body", map[string]string{"framing": r.Framing, "len_class": lenClass(len(r.Body))}, "request #%d: what the origin had received of the body when it stopped reading (%d bytes) is not a prefix of what the client sent", r.ID, len(m.Body))
		}
		return
	}
	if !m.Complete {
		k.Fail("C01.req_body", map[string]string{"framing": r.Framing, "len_class": lenClass(len(r.Body))}, "request #%d: origin received an incomplete request body (%d of %d bytes)", r.ID, len(m.Body), len(r.Body))
		return
	}
	if d := firstDiff(m.Body, r.Body); d >= 0 {
		k.Fail("C01.req_body", map[string]string{"framing": r.Framing, "len_class": lenClass(len(r.Body))}, "request #%d: body differs at offset %d (sent %d bytes, origin got %d): got %s want %s", r.ID, d, len(r.Body), len(m.Body), excerpt(m.Body, d), excerpt(r.Body, d))
	}
}

func c01CheckResponse(k *kernel.K, ex *c01Ex, m *wire.Msg) {
	rs := ex.sentResp
	id := ex.id
	if m.Status != rs.Status {
		k.Fail("C01.resp_status", nil, "exchange #%d: origin status %d, client received %d", id, rs.Status, m.Status)
		return
	}
	sent := endToEnd(rs.Header, nil)
	recv := wire.HeaderMap(m.Header)
	for _, name := range sortedKeys(sent) {
		if !sameValues(sent[name], recv[name]) {
			k.Fail("C01.resp_headers", map[string]string{"name": name}, "exchange #%d: response header %s sent by origin as %q, client received %q", id, name, sent[name], recv[name])
		}
	}
	ce := "identity"
	for _, h := range rs.Header {
		if strings.EqualFold(h.Name, "Content-Encoding") {
			ce = h.Value
		}
	}
	want := rs.Body
	if ex.req.Method == "HEAD" || rs.Status == 204 || rs.Status == 304 || rs.Framing == "none" {
		want = nil
	}
	params := map[string]string{"framing": rs.Framing, "content_encoding": ce, "len_class": lenClass(len(want))}
	if !m.Complete {
		k.Fail("C01.resp_body", params, "exchange #%d: incomplete response at the client (%d of %d body bytes)", id, len(m.Body), len(want))
		return
	}
	if d := firstDiff(m.Body, want); d >= 0 {
		k.Fail("C01.resp_body", params, "exchange #%d: response body differs at offset %d (origin sent %d bytes, client got %d): got %s want %s", id, d, len(want), len(m.Body), excerpt(m.Body, d), excerpt(want, d))
	}
	// An HTTP/1.0 client does not understand chunked transfer coding: to it the chunk framing IS
	// the body (RFC 7230 section 3.3.1: a server must not send Transfer-Encoding to a 1.0 request).
	if ex.req.Proto == "HTTP/1.0" && m.Framing == "chunked" {
		k.Probe("http10_client_chunked_origin")
		p2 := map[string]string{"framing": "chunked_to_http10_client", "content_encoding": ce, "len_class": lenClass(len(want))}
		k.Fail("C01.resp_body", p2, "exchange #%d: the response to an HTTP/1.0 request was sent with Transfer-Encoding: chunked; an HTTP/1.0 client reads the chunk framing as body bytes (origin framed its %d-byte body as %s)", id, len(want), rs.Framing)
	}
}
