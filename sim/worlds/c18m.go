package worlds

import (
	"crypto/tls"
	"fmt"
	"net/http"
	"net/http/httptest"
	"regexp"
	"sort"
	"strings"
	"time"

	"verifsim/kernel"
	"verifsim/simnet"
	"verifsim/wire"

	"github.com/google/martian/v3"
	"github.com/google/martian/v3/trafficshape"
)

// C18M — C18 for a MITM'd connection on a shaped listener: the proxy wraps the decrypted
// connection in a second shaped connection (with its own per-shape buckets). Shaping applies to
// the plaintext written into the TLS session; closing the client connection must release what was
// created for both.

func init() {
	register(&World{
		Name: "C18M", Prop: "C18", Run: runC18M, MaxSteps: 20000, WarmCrypto: true,
		Real: []string{"trafficshape.Listener.GetTrafficShapedConn on the decrypted connection, Conn, Bucket, Handler", "martian.Proxy MITM branch on a shaped listener", "mitm.Config, crypto/tls on both legs"},
		Stub: append([]string{"CONNECT+TLS client actor", "TLS origin actor", "bucket busy-wait as 1 ms simulated sleep (seam R3)", "model of close offsets"}, commonStub...),
	})
}

func runC18M(k *kernel.K) {
	w := k.W
	k.FastAdvance = true
	n := simnet.New(k)
	n.DefaultAuto = true
	env := newTLSEnv()
	mc := env.mitmConfig()
	base := n.Listen("10.0.0.1:8080")
	tsl := trafficshape.NewListener(base)
	handler := trafficshape.NewHandler(tsl)
	proxy := martian.NewProxy()
	proxy.SetDial(n.DialFunc("proxy"))
	proxy.SetMITM(mc)
	proxy.GetRoundTripper().(*http.Transport).TLSClientConfig = &tls.Config{RootCAs: env.pool}
	go proxy.Serve(tsl)
	k.Settle()
	baseline := kernel.CensusSummary(k.Census(), "trafficshape.")

	// one accepted configuration: shapes with close actions and short halts only (no throttles)
	conf := &tsConfig{}
	paths := []string{"/alpha", "/beta", "/gamma"}
	for i, ns := 0, w.Range(1, 3); i < ns; i++ {
		s := &tsShape{URLRegex: "origin-s.test" + paths[i] + "/.*"}
		if w.Chance(2, 3) {
			s.Closes = append(s.Closes, &tsClose{Byte: int64([]int{1, 700, 2000, 5200}[w.Draw(4)]), Count: int64([]int{1, -1}[w.Draw(2)])})
		}
		if w.Chance(1, 3) {
			s.Halts = append(s.Halts, &tsHalt{Byte: int64([]int{0, 300, 1500}[w.Draw(3)]), Duration: int64([]int{50, 400}[w.Draw(2)]), Count: 1})
		}
		conf.Shapes = append(conf.Shapes, s)
	}
	rec := httptest.NewRecorder()
	handler.ServeHTTP(rec, httptest.NewRequest("POST", "http://martian.proxy/shape-traffic", strings.NewReader(conf.JSON())))
	k.Note("config -> %d: %s", rec.Code, clipStr(conf.JSON(), 800))
	if rec.Code != 200 {
		k.Fail("C18.reject_unchanged", map[string]string{"kind": "valid_rejected"}, "valid shaping configuration was answered with status %d: %s", rec.Code, clipStr(conf.JSON(), 300))
		n.Shutdown()
		k.Settle()
		return
	}
	model := conf.clone()
	k.Advance(time.Duration(1+w.Draw(5)) * time.Millisecond)

	exs := map[int]*tsEx{}
	NewTLSOrigin(k, n, env, "origin-s.test:443", []string{"origin-s.test"}, func(req *wire.Msg) []byte {
		e := exs[exchangeID(req.Target)]
		if e == nil {
			return []byte("HTTP/1.1 500 Unplanned\r\nContent-Length: 0\r\n\r\n")
		}
		return e.resp.Encode(req.Method)
	})
	cl := NewTLSClient(k, base, "cl0", "10.1.0.2", &tls.Config{RootCAs: env.pool, ServerName: "origin-s.test"})
	cl.SendConnect("origin-s.test:443", "")
	advance := func(done func() bool) bool {
		for guard := 0; guard < 3000; guard++ {
			k.Settle()
			if done() {
				return true
			}
			if k.Step() {
				continue
			}
			if !k.Advance(25 * time.Millisecond) {
				k.Inconclusive = "clock_blocked_by_mutex"
				return false
			}
		}
		return done()
	}
	cleanup := func() {
		cl.Close()
		k.Settle()
		for k.Step() {
		}
		k.Advance(3 * time.Second)
		k.Settle()
	}
	finish := func() {
		n.Shutdown()
		k.Settle()
		if cl.started {
			close(cl.cmds)
		}
		k.Settle()
	}
	if !advance(cl.Connected) {
		cleanup()
		finish()
		return
	}
	cl.Start()
	if !advance(func() bool { _, hs, err, eof, _, _ := cl.Snapshot(); return hs || err != nil || eof }) {
		cleanup()
		finish()
		return
	}
	if _, hs, err, _, _, _ := cl.Snapshot(); !hs || err != nil {
		k.Fail("C18.bytes_exact", map[string]string{"shaped": "true", "mode": "mitm"}, "TLS handshake inside the tunnel on the shaped listener failed: done=%v err=%v", hs, err)
		cleanup()
		finish()
		return
	}
	nreq := w.Range(1, 3)
	for j := 0; j < nreq && k.Inconclusive == ""; j++ {
		e := &tsEx{id: j + 1}
		e.path = append(paths, "/unshaped")[w.Pick([]int{3, 2, 1, 2})]
		e.total = []int{0, 300, 2500, 6000, 9000}[w.Pick([]int{1, 2, 3, 3, 2})]
		full := bodyBytes(e.id, 'r', e.total)
		e.spec = &ReqSpec{ID: e.id, Method: "GET", Host: "origin-s.test", Path: fmt.Sprintf("%s/x%d", e.path, e.id)}
		if e.total > 0 && w.Chance(1, 3) {
			e.rangeStart = int64(w.Draw(e.total))
			e.spec.Header = []wire.HF{{Name: "Range", Value: fmt.Sprintf("bytes=%d-", e.rangeStart)}}
			e.body = full[e.rangeStart:]
			e.resp = &RespSpec{Status: 206, Framing: "cl", Body: e.body, Header: []wire.HF{{Name: "Content-Range", Value: fmt.Sprintf("bytes %d-%d/%d", e.rangeStart, e.total-1, e.total)}}}
		} else {
			e.body = full
			e.resp = &RespSpec{Status: 200, Framing: "cl", Body: e.body}
		}
		exs[e.id] = e
		cl.Send("GET", e.spec.Encode())
		want := j + 1
		advance(func() bool { fin, _, _, eof, _, _ := cl.Snapshot(); return len(fin) >= want || eof })
		fin, _, _, eof, perr, _ := cl.Snapshot()
		desc := fmt.Sprintf("exchange #%d inside the TLS session (GET https://origin-s.test%s, resource %dB, range start %d, body %dB)", e.id, e.spec.Path, e.total, e.rangeStart, len(e.body))
		// which shape applies (the proxy matches the regex against the full https URL)
		var shape *tsShape
		for _, s := range model.Shapes {
			if ok, _ := regexp.MatchString(s.URLRegex, "https://origin-s.test"+e.spec.Path); ok {
				shape = s
				break
			}
		}
		closeAt := int64(-1)
		if shape != nil {
			k.Probe("mitm_shaped_exchange")
			closeAt, _ = c18Walk(shape, e, true)
		}
		var got *wire.Msg
		if j < len(fin) {
			got = fin[j]
		} else {
			cl.mu.Lock()
			got = cl.P.Cur
			cl.mu.Unlock()
		}
		if closeAt >= 0 {
			k.Probe("mitm_close_action")
			wantBody := e.body[:closeAt-e.rangeStart]
			n := -1
			if got != nil {
				n = len(got.Body)
			}
			if got == nil || !got.HeadDone || string(got.Body) != string(wantBody) {
				k.Fail("C18.close_offset", map[string]string{"range_start": fmt.Sprint(e.rangeStart > 0), "mode": "mitm"}, "%s: close action at absolute byte %d: the TLS client received %d body bytes, want exactly %d, then close (parse error %v)", desc, closeAt, n, len(wantBody), perr)
			}
			if !eof {
				k.Fail("C18.close_offset", map[string]string{"range_start": fmt.Sprint(e.rangeStart > 0), "mode": "mitm"}, "%s: close action at absolute byte %d did not close the connection", desc, closeAt)
			}
			break
		}
		if j >= len(fin) || firstDiff(fin[j].Body, e.body) >= 0 {
			n := -1
			if got != nil {
				n = len(got.Body)
			}
			k.Fail("C18.bytes_exact", map[string]string{"shaped": fmt.Sprint(shape != nil), "mode": "mitm"}, "%s: no close action applies, yet the TLS client did not receive the response intact (%d of %d body bytes, eof=%v, parse error %v)", desc, n, len(e.body), eof, perr)
			break
		}
	}
	cleanup()
	// Resources: the outer shaped connection and the one wrapped around the decrypted connection
	// each created a pair of buckets per shape; all of them must be gone now.
	left := kernel.CensusSummary(k.Census(), "trafficshape.")
	perConn := 0
	var extra []string
	for f, c := range left {
		if c > baseline[f] {
			extra = append(extra, fmt.Sprintf("%s x%d (baseline %d)", f, c, baseline[f]))
			if strings.Contains(f, "(*Bucket).loop") {
				perConn += c - baseline[f]
			}
		}
	}
	sort.Strings(extra)
	if perConn > len(conf.Shapes) { // one shape-wide bucket per shape lives with the configuration
		k.Fail("C18.resources_released", map[string]string{"top_frame": "trafficshape.(*Bucket).loop", "mode": "mitm"}, "the MITM'd client connection on the shaped listener is closed, yet %d bucket drain goroutines remain beyond the %d the accepted configuration can account for: %v", perConn, len(conf.Shapes), extra)
	}
	finish()
}
