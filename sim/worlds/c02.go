package worlds

import (
	"errors"
	"fmt"
	"net/http"
	"net/url"
	"strconv"
	"strings"
	"sync"
	"time"

	"verifsim/kernel"
	"verifsim/simnet"
	"verifsim/wire"

	"github.com/google/martian/v3"
)

// C02 — each exchange runs request then response modifiers exactly once with one context;
// modifier errors become Warning headers; skip-round-trip; hijack.

func init() {
	register(&World{
		Name: "C02", Prop: "C02", Run: runC02, MaxSteps: 40000,
		Real: []string{"martian.Proxy (handleLoop, handle, handleConnectRequest, roundTrip)", "martian.Context / Session (link, unlink, Hijack, SkipRoundTrip)", "proxyutil.Warning", "net/http.Transport"},
		Stub: append([]string{"raw scripted clients and origins", "harness request/response modifiers with controller-owned gates", "blind-tunnel target"}, commonStub...),
	})
}

type c02Plan struct {
	id          int
	conn        int
	connect     bool
	reqBeh      string // pass | mutate | error | skip | hijack
	resBeh      string // pass | mutate | error | hijack
	parkReq     bool
	parkRes     bool
	unreachable bool
	failKind    string // refused | dial_timeout | origin_closes (how the upstream fails when unreachable)
	spec        *ReqSpec
	resp        *RespSpec
}

type c02Call struct {
	phase     string // req | res
	id        int
	step      int
	retStep   int
	req       *http.Request
	ctx       *martian.Context
	ctxID     string
	sess      *martian.Session
	sessID    string
	remote    string
	dialsIn   int
	dialsOut  int
	opsAtRet  int
	conn      *simnet.Conn
	hijacked  bool
	hijackErr error
	status    int
}

type c02Withheld struct {
	cl    *Client
	it    *ClientItem
	j, id int
	state int
}

type c02CopyRT struct{ inner http.RoundTripper }

func (rt c02CopyRT) RoundTrip(req *http.Request) (*http.Response, error) {
	return rt.inner.RoundTrip(req.WithContext(req.Context()))
}

// c02HostID extracts the exchange id from a tunnel authority "x<id>.<rest>".
func c02HostID(h string) int {
	if strings.HasPrefix(h, "x") {
		if i := strings.IndexByte(h, '.'); i > 1 {
			id, _ := strconv.Atoi(h[1:i])
			return id
		}
	}
	return -1
}

func c02ID(req *http.Request) int {
	if req.Method == "CONNECT" {
		h := req.URL.Host
		if h == "" {
			h = req.Host
		}
		if strings.HasPrefix(h, "x") {
			if i := strings.IndexByte(h, '.'); i > 1 {
				id, _ := strconv.Atoi(h[1:i])
				return id
			}
		}
		return -1
	}
	return exchangeID(req.URL.Path)
}

func runC02(k *kernel.K) {
	w := k.W
	n := simnet.New(k)
	n.DefaultPolicy = simnet.ChunkPolicy(w.Pick([]int{5, 2, 2, 1, 0, 2}))
	n.TCPLikeConns = w.Chance(1, 2)
	// (no reset-on-close personality here: after a hijack the proxy must close without reading, so a
	// hijacker that leaves input unread takes the reset upon itself)
	n.LogSystemOps = true
	proxy, l := newProxyA(k, n)
	if w.Chance(1, 3) {
		// a round tripper that hands a copy of the request on (the usual req.WithContext wrapper
		// around the transport): the response it returns names the copy
		k.Probe("round_tripper_passes_a_copy")
		proxy.SetRoundTripper(c02CopyRT{proxy.GetRoundTripper()})
	}
	k.AddSource(k.GateSource)
	// refuse.test has no handler: dials are refused. timeout.test: dials hang, then time out.
	n.TimeoutAddrs = map[string]bool{"timeout.test:80": true}
	k.AddSource(func(add func(kernel.Action)) {
		if n.SleepingDials() > 0 {
			add(kernel.Action{Key: "advance past dial timeout", W: 2, Class: kernel.Clock, Do: func() {
				k.FaultFired("dial_timeout")
				k.Advance(31 * time.Second)
			}})
		}
	})
	liveBase := martian.VerifLiveContexts()

	plans := map[int]*c02Plan{}
	var mu sync.Mutex
	var calls []*c02Call
	record := func(c *c02Call) {
		mu.Lock()
		calls = append(calls, c)
		mu.Unlock()
	}
	hijackResp := func(id int, phase string) string {
		return fmt.Sprintf("HTTP/1.1 599 Hijacked\r\nContent-Length: 8\r\nX-Hijack: %d-%s\r\n\r\nHIJACKED", id, phase)
	}
	doHijack := func(c *c02Call, ctx *martian.Context) {
		conn, brw, err := ctx.Session().Hijack()
		c.hijackErr = err
		if err != nil {
			return
		}
		c.hijacked = true
		_ = conn
		brw.WriteString(hijackResp(c.id, c.phase))
		brw.Flush()
	}
	proxy.SetRequestModifier(martian.RequestModifierFunc(func(req *http.Request) error {
		id := c02ID(req)
		ctx := martian.NewContext(req)
		c := &c02Call{phase: "req", id: id, step: k.StepN, req: req, ctx: ctx, remote: req.RemoteAddr, dialsIn: n.Dials()}
		if ctx != nil {
			c.ctxID, c.sess = ctx.ID(), ctx.Session()
			if c.sess != nil {
				c.sessID = c.sess.ID()
			}
		}
		c.conn = n.FindByRemote(req.RemoteAddr)
		record(c)
		p := plans[id]
		defer func() {
			c.retStep = k.StepN
			c.dialsOut = n.Dials()
			if c.conn != nil {
				c.opsAtRet = c.conn.OpCount()
			}
		}()
		if p == nil || ctx == nil {
			return nil
		}
		if p.parkReq {
			k.Park(fmt.Sprintf("reqmod#%d", id))
		}
		switch p.reqBeh {
		case "mutate":
			req.Header.Set("X-Mutated", fmt.Sprint(id))
		case "error":
			if id%2 == 0 {
				// several errors joined the way martian.MultiError does
				return fmt.Errorf("reqmod-error-%d\nsecond error line", id)
			}
			return fmt.Errorf("reqmod-error-%d", id)
		case "skip":
			ctx.SkipRoundTrip()
		case "hijack":
			doHijack(c, ctx)
		}
		return nil
	}))
	proxy.SetResponseModifier(martian.ResponseModifierFunc(func(res *http.Response) error {
		req := res.Request
		id := -1
		if req != nil {
			id = c02ID(req)
		}
		var ctx *martian.Context
		if req != nil {
			ctx = martian.NewContext(req)
		}
		c := &c02Call{phase: "res", id: id, step: k.StepN, req: req, ctx: ctx, status: res.StatusCode}
		if ctx != nil {
			c.ctxID, c.sess = ctx.ID(), ctx.Session()
			if c.sess != nil {
				c.sessID = c.sess.ID()
			}
		}
		if req != nil {
			c.conn = n.FindByRemote(req.RemoteAddr)
		}
		record(c)
		p := plans[id]
		defer func() {
			c.retStep = k.StepN
			if c.conn != nil {
				c.opsAtRet = c.conn.OpCount()
			}
		}()
		res.Header.Set("X-Resmod", fmt.Sprint(id))
		if p == nil || ctx == nil {
			return nil
		}
		if p.parkRes {
			k.Park(fmt.Sprintf("resmod#%d", id))
		}
		switch p.resBeh {
		case "mutate":
			res.Header.Set("X-Mutated", fmt.Sprint(id))
		case "error":
			return errors.New("resmod-error-" + fmt.Sprint(id))
		case "hijack":
			doHijack(c, ctx)
		}
		return nil
	}))

	// Origins.
	attempts := map[int]int{}
	plan := func(oc *OConn, req *wire.Msg) *Reply {
		id := exchangeID(req.Target)
		attempts[id]++
		p := plans[id]
		if p == nil || p.resp == nil {
			return &Reply{Raw: []byte("HTTP/1.1 500 Unplanned\r\nContent-Length: 0\r\n\r\n")}
		}
		if p.failKind == "origin_closes" {
			// reads the request, then closes without a single byte of response
			k.FaultFired("origin_closes_without_response")
			return &Reply{CloseAfter: true}
		}
		return &Reply{Raw: p.resp.Encode(req.Method)}
	}
	origin := NewOrigin(k, n, "origin-a.test:80", plan)
	// Tunnel targets: raw echo of "PING<id>" -> "PONG<id>".
	tunnelGot := map[int][]byte{}
	tunnelConns := map[int]*simnet.Conn{}
	for id := 1; id <= 16; id++ {
		id := id
		n.Handle(fmt.Sprintf("x%d.tunnel.test:443", id), func(c *simnet.Conn) {
			tunnelConns[id] = c
			c.OnData(func(b []byte) {
				tunnelGot[id] = append(tunnelGot[id], b...)
				if strings.HasSuffix(string(tunnelGot[id]), fmt.Sprintf("PING%d", id)) {
					c.Inject([]byte(fmt.Sprintf("PONG%d", id)))
				}
			}, func() { c.Close() }, nil)
		})
	}

	// Downstream-proxy mode (a sixth of the runs): every connection is a CONNECT, forwarded to a
	// downstream proxy that establishes the tunnel (200) or refuses it (403 with a body) - the
	// refusal is relayed to the client like any other response, after the response modifier.
	ds := w.Chance(1, 6)
	if ds {
		k.Probe("downstream_proxy_mode")
		u, _ := url.Parse("http://dsproxy.test:3128")
		proxy.SetDownstreamProxy(u)
		n.Handle("dsproxy.test:3128", func(c *simnet.Conn) {
			rp := wire.NewReqParser()
			id, up := 0, false
			var got []byte
			c.OnData(func(b []byte) {
				if !up {
					rp.Feed(b)
					if len(rp.Msgs) == 0 {
						return
					}
					up = true
					id = c02HostID(rp.Msgs[0].Target)
					tunnelConns[id] = c
					if strings.Contains(rp.Msgs[0].Target, "nowhere") {
						k.Probe("downstream_proxy_refuses_connect")
						c.Inject([]byte("HTTP/1.1 403 Forbidden\r\nContent-Length: 6\r\nX-Refused-By: dsproxy\r\n\r\ndenied"))
						return
					}
					c.Inject([]byte("HTTP/1.1 200 Connection established\r\n\r\n"))
					b = rp.Raw
					rp.Raw = nil
				}
				got = append(got, b...)
				tunnelGot[id] = got
				if strings.HasSuffix(string(got), fmt.Sprintf("PING%d", id)) {
					c.Inject([]byte(fmt.Sprintf("PONG%d", id)))
				}
			}, func() { c.Close() }, nil)
		})
	}
	var withheld []*c02Withheld
	nconn := w.Range(1, 3)
	var clients []*Client
	connPlans := map[int][]*c02Plan{}
	id := 1
	for ci := 0; ci < nconn; ci++ {
		c := NewClient(k, l, fmt.Sprintf("cl%d", ci), fmt.Sprintf("10.1.0.%d", ci+2))
		clients = append(clients, c)
		isConnect := ds || w.Chance(1, 4)
		nreq := w.Range(1, 4)
		if isConnect {
			nreq = 1
		}
		for j := 0; j < nreq; j++ {
			p := &c02Plan{id: id, conn: ci, connect: isConnect}
			p.reqBeh = []string{"pass", "mutate", "error", "skip", "hijack"}[w.Pick([]int{5, 2, 3, 3, 2})]
			p.resBeh = []string{"pass", "mutate", "error", "hijack"}[w.Pick([]int{6, 2, 3, 2})]
			p.parkReq, p.parkRes = w.Chance(1, 2), w.Chance(1, 2)
			if isConnect {
				p.unreachable = w.Chance(1, 4) && p.reqBeh != "skip"
				host := fmt.Sprintf("x%d.tunnel.test:443", id)
				if p.unreachable {
					host = fmt.Sprintf("x%d.nowhere.test:443", id)
				}
				p.spec = &ReqSpec{ID: id, Method: "CONNECT", Host: host, Path: host}
			} else {
				p.unreachable = w.Chance(1, 6)
				host := "origin-a.test"
				if p.unreachable {
					p.failKind = []string{"refused", "dial_timeout", "origin_closes"}[w.Pick([]int{2, 1, 2})]
					switch p.failKind {
					case "refused":
						host = "refuse.test"
					case "dial_timeout":
						host = "timeout.test"
					}
				}
				p.spec = &ReqSpec{ID: id, Method: []string{"GET", "POST", "HEAD"}[w.Pick([]int{4, 3, 1})], Abs: !w.Chance(1, 4), Host: host, Path: fmt.Sprintf("/x%d/p", id)}
				if p.spec.Method == "POST" {
					p.spec.Framing = []string{"cl", "chunked"}[w.Draw(2)]
					p.spec.Body = bodyBytes(id, 'q', w.Range(0, 3000))
				}
				p.spec.Pipelined = j > 0 && w.Chance(1, 4)
				p.resp = &RespSpec{Status: []int{200, 404, 500}[w.Pick([]int{4, 1, 1})], Framing: []string{"cl", "chunked"}[w.Draw(2)], Body: bodyBytes(id, 'r', w.Range(0, 3000))}
			}
			plans[id] = p
			connPlans[ci] = append(connPlans[ci], p)
			it := c.Add(p.spec)
			if !isConnect && p.reqBeh == "skip" && p.resBeh != "hijack" && len(p.spec.Body) >= 2 && p.spec.Framing == "cl" && !p.spec.Pipelined && w.Chance(1, 2) {
				// the client sends only part of its body and keeps the rest until it has the answer
				// (which a skipped round trip produces without reading the body): the exchange has
				// ended then, whatever the proxy still does with the connection
				it.SplitAt = len(it.Raw) - 1 - w.Draw(len(p.spec.Body)-1)
				withheld = append(withheld, &c02Withheld{cl: c, it: it, j: j, id: id})
				k.Probe("body_tail_withheld_until_answered")
			}
			k.Note("c%d #%d %s %s req=%s(park %v) res=%s(park %v) unreachable=%v", ci, id, p.spec.Method, p.spec.Target(), p.reqBeh, p.parkReq, p.resBeh, p.parkRes, p.unreachable)
			id++
			if p.reqBeh == "hijack" || p.resBeh == "hijack" {
				break // a hijacked exchange is the last one the client sends on its connection
			}
		}
	}
	k.AddInvariant(func() {
		for _, wh := range withheld {
			switch {
			case wh.state == 0 && wh.it.partSent && !wh.it.Sent:
				wh.cl.Hold, wh.state = true, 1
			case wh.state == 1 && len(wh.cl.P.Final()) > wh.j:
				wh.state = 2
				wh.cl.Hold = false
				mu.Lock()
				var rq *http.Request
				for _, c := range calls {
					if c.phase == "req" && c.id == wh.id {
						rq = c.req
					}
				}
				mu.Unlock()
				if rq != nil && martian.NewContext(rq) != nil {
					k.Fail("C02.ctx_released", map[string]string{"when": "answered_body_tail_outstanding"}, "exchange #%d (skipped round trip): the client has its complete response and still owes the proxy the last bytes of its request body; a context is still retrievable for the request", wh.id)
				}
			}
		}
	})
	k.StateFn = func() string {
		var sb strings.Builder
		sb.WriteString(n.Fingerprint())
		for _, c := range clients {
			sb.WriteString("|" + c.State())
		}
		sb.WriteString("|" + origin.State())
		fmt.Fprintf(&sb, "|g%d", len(k.Parked()))
		return sb.String()
	}

	// Tunnel traffic for successful CONNECTs: once the 200 arrives the client sends PING<id>.
	pinged := map[int]bool{}
	k.AddSource(func(add func(kernel.Action)) {
		for ci, c := range clients {
			ps := connPlans[ci]
			if len(ps) != 1 || !ps[0].connect || ps[0].reqBeh == "skip" || pinged[ps[0].id] || !c.Alive() {
				continue
			}
			fin := c.P.Final()
			if len(fin) == 1 && fin[0].Status == 200 {
				p, c := ps[0], c
				add(kernel.Action{Key: fmt.Sprintf("%s ping", c.Name), W: 3, Class: kernel.Actor, Do: func() {
					pinged[p.id] = true
					c.C.Inject([]byte(fmt.Sprintf("PING%d", p.id)))
				}})
			}
		}
	})

	k.RunUntil(func() bool {
		for ci, c := range clients {
			if !c.Done() {
				return false
			}
			ps := connPlans[ci]
			if len(ps) == 1 && ps[0].connect && ps[0].reqBeh != "skip" && c.Alive() {
				fin := c.P.Final()
				if len(fin) == 1 && fin[0].Status == 200 && !strings.Contains(string(c.P.Raw), "PONG") {
					return false
				}
			}
		}
		return len(k.Parked()) == 0
	})
	k.Drain()
	if k.Inconclusive != "" {
		k.ReleaseAll()
		n.Shutdown()
		k.Settle()
		return
	}

	// ---- oracle over the recorded history ----
	mu.Lock()
	hist := append([]*c02Call(nil), calls...)
	mu.Unlock()
	byID := map[int]map[string][]*c02Call{}
	for _, c := range hist {
		if byID[c.id] == nil {
			byID[c.id] = map[string][]*c02Call{}
		}
		byID[c.id][c.phase] = append(byID[c.id][c.phase], c)
	}
	originReqs := map[int][]*wire.Msg{}
	originStart := map[int]int{}
	for _, oc := range origin.Conns {
		for i, m := range oc.P.Msgs {
			eid := exchangeID(m.Target)
			originReqs[eid] = append(originReqs[eid], m)
			if i < len(oc.StartSteps) {
				if s, ok := originStart[eid]; !ok || oc.StartSteps[i] < s {
					originStart[eid] = oc.StartSteps[i]
				}
			}
		}
	}
	type retainedReq struct {
		desc string
		req  *http.Request
	}
	var retained []retainedReq
	ctxIDs := map[string]int{}
	sessOfConn := map[int]*martian.Session{}
	connOfSess := map[*martian.Session]int{}
	for ci, c := range clients {
		mode := "plain"
		fin := c.P.Final()
		for j, p := range connPlans[ci] {
			if p.connect {
				mode = "connect"
			}
			it := c.Script[j]
			if !it.Sent {
				continue
			}
			rq, rs := byID[p.id]["req"], byID[p.id]["res"]
			desc := fmt.Sprintf("exchange #%d (%s %s, reqmod=%s resmod=%s unreachable=%v, conn %s)", p.id, p.spec.Method, p.spec.Target(), p.reqBeh, p.resBeh, p.unreachable, c.Name)
			if len(rq) != 1 {
				k.Fail("C02.reqmod_once", nil, "%s: request modifier ran %d times", desc, len(rq))
				continue
			}
			q := rq[0]
			if q.ctx == nil {
				k.Fail("C02.ctx_same", nil, "%s: no context retrievable inside the request modifier", desc)
				continue
			}
			if prev, dup := ctxIDs[q.ctxID]; dup && prev != p.id {
				k.Fail("C02.ctx_id_unique", nil, "%s: context ID %s already used by exchange #%d", desc, q.ctxID, prev)
			}
			ctxIDs[q.ctxID] = p.id
			// session scope
			if s0, ok := sessOfConn[ci]; ok && s0 != q.sess {
				k.Fail("C02.session_scope", map[string]string{"mode": mode}, "%s: session differs from the one earlier exchanges of this connection had", desc)
			}
			sessOfConn[ci] = q.sess
			if c0, ok := connOfSess[q.sess]; ok && c0 != ci {
				k.Fail("C02.session_scope", map[string]string{"mode": mode}, "%s: session is shared with connection %d", desc, c0)
			}
			connOfSess[q.sess] = ci
			// upstream contact only after the request modifier returned
			if st, ok := originStart[p.id]; ok && st <= q.retStep && !p.connect {
				if st < q.retStep || p.parkReq {
					k.Fail("C02.reqmod_before_upstream", nil, "%s: first byte reached the origin at step %d, request modifier returned at step %d", desc, st, q.retStep)
				}
			}
			if nconn == 1 && p.parkReq && q.dialsOut != q.dialsIn {
				k.Fail("C02.reqmod_before_upstream", nil, "%s: %d dial(s) requested while the request modifier was still running", desc, q.dialsOut-q.dialsIn)
			}
			hijackedOnReq := p.reqBeh == "hijack"
			hijackedOnRes := !hijackedOnReq && p.resBeh == "hijack"
			path := "normal"
			switch {
			case p.reqBeh == "skip":
				path = "skip"
			case p.unreachable && ds:
				path = "ds_refused"
			case p.unreachable:
				path = "502"
			case p.connect:
				path = "connect"
			}
			if hijackedOnReq {
				if len(rs) != 0 {
					k.Fail("C02.resmod_once", map[string]string{"path": "hijacked_on_request"}, "%s: response modifier ran %d times although the request modifier hijacked the session", desc, len(rs))
				}
				if len(originReqs[p.id]) > 0 {
					k.Fail("C02.hijack_no_io", map[string]string{"phase": "req", "mode": mode, "op": "upstream"}, "%s: origin was contacted after the session was hijacked", desc)
				}
			} else {
				if len(rs) != 1 {
					k.Fail("C02.resmod_once", map[string]string{"path": path}, "%s: response modifier ran %d times", desc, len(rs))
				}
				if len(rs) >= 1 {
					r := rs[0]
					if r.req != q.req {
						k.Fail("C02.resmod_request_identity", nil, "%s: res.Request in the response modifier is not the request the request modifier saw", desc)
					}
					if r.ctx != q.ctx {
						k.Fail("C02.ctx_same", nil, "%s: response modifier saw context %q, request modifier saw %q", desc, r.ctxID, q.ctxID)
					}
					if r.step < q.retStep {
						k.Fail("C02.resmod_once", map[string]string{"path": path}, "%s: response modifier entered (step %d) before the request modifier returned (step %d)", desc, r.step, q.retStep)
					}
				}
			}
			retained = append(retained, retainedReq{desc, q.req})
			// hijack: the client sees exactly the hijacker's bytes, then EOF; no proxy I/O afterwards
			if hijackedOnReq || hijackedOnRes {
				phase := "req"
				hc := q
				if hijackedOnRes {
					phase = "res"
					if len(rs) >= 1 {
						hc = rs[0]
					}
				}
				if !hc.hijacked {
					k.Fail("C02.hijack_closed", map[string]string{"phase": phase, "mode": mode}, "%s: Session.Hijack failed: %v", desc, hc.hijackErr)
					continue
				}
				k.Probe("hijack_" + phase)
				if j >= len(fin) || fin[j].Status != 599 || fin[j].First("X-Hijack") != fmt.Sprintf("%d-%s", p.id, phase) {
					k.Fail("C02.hijack_closed", map[string]string{"phase": phase, "mode": mode}, "%s: client did not receive the hijacker's bytes as the answer (responses=%d)", desc, len(fin))
				} else if len(fin) > j+1 || len(c.P.Raw) > 0 || c.P.Cur != nil || c.P.Err != nil {
					k.Fail("C02.hijack_no_io", map[string]string{"phase": phase, "mode": mode, "op": "write"}, "%s: bytes other than the hijacker's reached the client after the hijack", desc)
				}
				if !c.SawEOF && !c.SawRST {
					k.Fail("C02.hijack_closed", map[string]string{"phase": phase, "mode": mode}, "%s: hijacking modifier returned at step %d; at network quiescence the proxy has not closed the connection", desc, hc.retStep)
				}
				if hc.conn != nil {
					for _, op := range hc.conn.Ops()[hc.opsAtRet:] {
						if op.Kind == "read" || op.Kind == "write" {
							k.Fail("C02.hijack_no_io", map[string]string{"phase": phase, "mode": mode, "op": op.Kind}, "%s: proxy issued a %s on the hijacked connection after the modifier returned", desc, op.Kind)
							break
						}
					}
				}
				continue
			}
			// what the client and the origin saw
			if j >= len(fin) {
				k.Fail("C02.error_continues", nil, "%s: exchange did not complete: %d responses for %d requests (eof=%v)", desc, len(fin), len(c.Script), c.SawEOF)
				continue
			}
			resp := fin[j]
			if p.reqBeh == "error" && !p.connect {
				k.Probe("reqmod_error")
				if !p.unreachable {
					oms := originReqs[p.id]
					if len(oms) == 0 {
						k.Fail("C02.error_continues", nil, "%s: request modifier returned an error and the request never reached the origin", desc)
					} else if ws := strings.Join(oms[0].Get("Warning"), "|"); !strings.Contains(ws, fmt.Sprintf("reqmod-error-%d", p.id)) {
						k.Fail("C02.error_to_warning", map[string]string{"side": "request"}, "%s: origin received Warning %q, want one carrying the modifier's error", desc, ws)
					}
				}
			}
			if p.resBeh == "error" {
				k.Probe("resmod_error")
				if ws := strings.Join(resp.Get("Warning"), "|"); !strings.Contains(ws, fmt.Sprintf("resmod-error-%d", p.id)) {
					k.Fail("C02.error_to_warning", map[string]string{"side": "response"}, "%s: client received Warning %q, want one carrying the modifier's error", desc, ws)
				}
			}
			if !resp.Has("X-Resmod") {
				k.Fail("C02.resmod_once", map[string]string{"path": path}, "%s: response at the client did not pass through the response modifier", desc)
			}
			switch path {
			case "skip":
				k.Probe("skip")
				if len(originReqs[p.id]) > 0 {
					k.Fail("C02.skip_no_upstream", nil, "%s: origin was contacted although the request modifier asked to skip the round trip", desc)
				}
				if p.connect && tunnelConns[p.id] != nil {
					k.Fail("C02.skip_no_upstream", map[string]string{"mode": "connect"}, "%s: the CONNECT target was dialled although the request modifier asked to skip the round trip", desc)
				}
				if resp.Status != 200 {
					k.Fail("C02.skip_200_resmod", nil, "%s: skipped round trip answered with status %d, want 200", desc, resp.Status)
				}
			case "ds_refused":
				k.Probe("path_downstream_refusal_relayed")
				if resp.Status != 403 || string(resp.Body) != "denied" || resp.First("X-Refused-By") != "dsproxy" {
					k.Fail("C02.error_continues", map[string]string{"path": "downstream_refusal"}, "%s: the downstream proxy refused the CONNECT with a 403 (body \"denied\"); the client received status %d, body %q", desc, resp.Status, resp.Body)
				}
			case "502":
				k.Probe("path_502")
				if resp.Status != 502 || !resp.Has("Warning") {
					k.Fail("C02.error_continues", nil, "%s: unreachable upstream answered with status %d (Warning present: %v), want 502 with Warning", desc, resp.Status, resp.Has("Warning"))
				}
			case "normal":
				if resp.Status != p.resp.Status || (p.spec.Method != "HEAD" && firstDiff(resp.Body, p.resp.Body) >= 0) {
					k.Fail("C02.error_continues", nil, "%s: response differs from the origin's (status %d want %d, body %dB want %dB)", desc, resp.Status, p.resp.Status, len(resp.Body), len(p.resp.Body))
				}
				if len(originReqs[p.id]) != 1 {
					k.Fail("C02.reqmod_once", nil, "%s: origin received the request %d times", desc, len(originReqs[p.id]))
				}
				if p.reqBeh == "mutate" && len(originReqs[p.id]) == 1 && originReqs[p.id][0].First("X-Mutated") != fmt.Sprint(p.id) {
					k.Fail("C02.reqmod_before_upstream", nil, "%s: the request modifier's mutation did not reach the origin", desc)
				}
			case "connect":
				k.Probe("connect_tunnel")
				if resp.Status != 200 {
					k.Fail("C02.error_continues", nil, "%s: CONNECT answered with %d", desc, resp.Status)
				} else if !strings.Contains(string(c.P.Raw), fmt.Sprintf("PONG%d", p.id)) {
					k.Fail("C02.error_continues", nil, "%s: tunnel did not carry PING/PONG (client got %q, target got %q)", desc, c.P.Raw, tunnelGot[p.id])
				}
			}
		}
	}
	// every recorded call must belong to a planned exchange exactly as counted above
	for eid, m := range byID {
		if plans[eid] == nil {
			k.Fail("C02.reqmod_once", nil, "modifier called for an exchange nobody sent: id %d (req %d, res %d)", eid, len(m["req"]), len(m["res"]))
		}
	}
	for _, c := range clients {
		c.CloseNow()
	}
	for _, tc := range tunnelConns {
		tc.Close()
	}
	k.Drain()
	// Every exchange has ended now (connections closed, network drained): no context may remain.
	for _, r := range retained {
		if martian.NewContext(r.req) != nil {
			k.Fail("C02.ctx_released", nil, "%s: a context is still retrievable for the request after the exchange and its connection ended", r.desc)
		}
	}
	if live := martian.VerifLiveContexts() - liveBase; live != 0 {
		k.Fail("C02.ctx_table_empty", nil, "%d request-to-context associations remain after every connection was closed and the network drained", live)
	}
	k.ReleaseAll()
	n.Shutdown()
	k.Settle()
}
