package worlds

import (
	"bytes"
	"context"
	"crypto/tls"
	"errors"
	"fmt"
	"net"
	"net/url"
	"strings"
	"sync"
	"time"

	"verifsim/kernel"
	"verifsim/simnet"

	"github.com/google/martian/v3/h2"
	"golang.org/x/net/http2"
	"golang.org/x/net/http2/hpack"
)

// World C — the HTTP/2 relay between two scripted frame endpoints.
// C08: faithful per-stream delivery.   C09: windows obeyed, exact credit, nothing stranded.

func init() {
	real := []string{"h2.Config.Proxy, forwardPreface", "h2 relay (relayFrames, processFrame, flow control, output queues, HPACK re-encoding)", "h2 queued frames", "x/net http2.Framer and hpack as used by the relay"}
	stub := append([]string{"scripted HTTP/2 client and server endpoints with their own Framer, HPACK state and flow-control ledgers", "upstream dial (seam R1)", "map iteration order of per-stream output buffers (seam R2: tape-chosen permutation)", "pass-through stream processors"}, commonStub...)
	register(&World{Name: "C08", Prop: "C08", Run: func(k *kernel.K) { runH2(k, "C08") }, MaxSteps: 60000, Real: real, Stub: stub})
	register(&World{Name: "C09", Prop: "C09", Run: func(k *kernel.K) { runH2(k, "C09") }, MaxSteps: 60000, Real: real, Stub: stub})
}

type passProc struct{ h2.Processor }

var h2HdrNames = []string{"x-alpha", "x-beta", "accept", "cookie", "user-agent", "x-trace", "te", "x-long", "authorization", "x-dup"}

func genFields(k *kernel.K, pseudo []hpack.HeaderField, stream uint32, heavy bool) []hpack.HeaderField {
	w := k.W
	fs := append([]hpack.HeaderField(nil), pseudo...)
	n := w.Draw(7)
	if heavy {
		n += 4 + w.Draw(12)
	}
	for i := 0; i < n; i++ {
		name := h2HdrNames[w.Draw(len(h2HdrNames))]
		var val string
		switch w.Pick([]int{3, 3, 2, 1}) {
		case 0: // repeated across streams: exercises indexed representations
			val = "common-value-" + name
		case 1:
			val = fmt.Sprintf("v-%d-%d", stream, i)
		case 2:
			val = fmt.Sprintf("long-%d-%d-%s", stream, i, strings.Repeat("z", 20+w.Draw(180)))
		case 3:
			val = ""
		}
		fs = append(fs, hpack.HeaderField{Name: name, Value: val, Sensitive: w.Chance(1, 12)})
	}
	return fs
}

func genCuts(k *kernel.K) []int {
	w := k.W
	if !w.Chance(2, 5) {
		return nil
	}
	var cuts []int
	for i, n := 0, 1+w.Draw(3); i < n; i++ {
		cuts = append(cuts, 1+w.Draw(998))
	}
	// sort ascending
	for i := range cuts {
		for j := i + 1; j < len(cuts); j++ {
			if cuts[j] < cuts[i] {
				cuts[i], cuts[j] = cuts[j], cuts[i]
			}
		}
	}
	return cuts
}

func genPrio(k *kernel.K) (bool, http2.PriorityParam) {
	w := k.W
	if !w.Chance(1, 3) {
		return false, http2.PriorityParam{}
	}
	return true, http2.PriorityParam{StreamDep: uint32(w.Draw(4) * 2), Exclusive: w.Chance(1, 3), Weight: uint8(1 + w.Draw(250))}
}

type h2World struct {
	k             *kernel.K
	n             *simnet.Net
	cl, sv        *H2End
	cc, sc        net.Conn
	closing       chan bool
	mu            sync.Mutex
	proxyDone     bool
	proxyErr      error
	proxyDoneStep int
	dialed        bool
	scSys         *simnet.Conn
	stallDial     chan struct{} // non-nil: the upstream dial never completes (until the channel is closed)
	ccSys         *simnet.Conn
}

// newH2World wires a relay between two harness endpoints. The upstream connection is handed
// out by the dial seam.
func newH2World(k *kernel.K, factories []h2.StreamProcessorFactory) *h2World {
	hw := &h2World{k: k, n: simnet.New(k), closing: make(chan bool)}
	return hw.start(factories)
}

func (hw *h2World) start(factories []h2.StreamProcessorFactory) *h2World {
	k, n := hw.k, hw.n
	clH, ccS := n.Pair("h2client", "relay.cc", "10.1.0.2:50000", "10.0.0.1:8080")
	svS, svH := n.Pair("relay.sc", "h2server", "10.0.0.1:50001", "origin.test:443")
	hw.ccSys, hw.scSys = ccS, svS
	hw.cl = newH2End(k, "client", true, clH)
	hw.sv = newH2End(k, "server", false, svH)
	hw.cc, hw.sc = n.Wrap(ccS), n.Wrap(svS)
	h2.VerifDial = func(network, addr string, cfg *tls.Config) (net.Conn, error) {
		hw.mu.Lock()
		hw.dialed = true
		hw.mu.Unlock()
		if hw.stallDial != nil {
			// an upstream that accepts the connection and then stays silent
			<-hw.stallDial
			return nil, errors.New("dial abandoned by the harness")
		}
		return hw.sc, nil
	}
	h2.VerifDialContext = func(ctx context.Context, network, addr string, cfg *tls.Config) (net.Conn, error) {
		if hw.stallDial != nil {
			hw.mu.Lock()
			hw.dialed = true
			hw.mu.Unlock()
			select {
			case <-ctx.Done():
				return nil, ctx.Err()
			case <-hw.stallDial:
				return nil, errors.New("dial abandoned by the harness")
			}
		}
		return h2.VerifDial(network, addr, cfg)
	}
	h2.VerifOrder = func(m int) []int {
		perm := make([]int, m)
		for i := range perm {
			perm[i] = i
		}
		for i := m - 1; i > 0; i-- {
			j := k.S.Draw(i + 1)
			perm[i], perm[j] = perm[j], perm[i]
		}
		return perm
	}
	cfg := &h2.Config{StreamProcessorFactories: factories}
	u, _ := url.Parse("https://origin.test:443")
	go func() {
		err := cfg.Proxy(hw.closing, hw.cc, u)
		hw.mu.Lock()
		hw.proxyDone, hw.proxyErr, hw.proxyDoneStep = true, err, k.StepN
		hw.mu.Unlock()
	}()
	return hw
}

func (hw *h2World) done() (bool, error) {
	hw.mu.Lock()
	defer hw.mu.Unlock()
	return hw.proxyDone, hw.proxyErr
}

func (hw *h2World) cleanup() {
	h2.VerifDial, h2.VerifDialContext, h2.VerifOrder, h2.VerifYieldHook = nil, nil, nil, nil
	if hw.stallDial != nil {
		close(hw.stallDial)
		hw.stallDial = nil
	}
	hw.k.ReleaseAll()
	select {
	case <-hw.closing:
	default:
		close(hw.closing)
	}
	hw.n.Shutdown()
	hw.k.Settle()
}

func runH2(k *kernel.K, focus string) {
	w := k.W
	// Stream processors: none, a factory returning nil processors, or pass-through chains.
	var factories []h2.StreamProcessorFactory
	procKind := []string{"none", "nil_factory", "pass1", "pass2"}[w.Pick([]int{3, 1, 2, 1})]
	passF := func(_ *url.URL, sinks *h2.Processors) (h2.Processor, h2.Processor) {
		return &passProc{sinks.ForDirection(h2.ClientToServer)}, &passProc{sinks.ForDirection(h2.ServerToClient)}
	}
	switch procKind {
	case "nil_factory":
		factories = []h2.StreamProcessorFactory{func(*url.URL, *h2.Processors) (h2.Processor, h2.Processor) { return nil, nil }}
	case "pass1":
		factories = []h2.StreamProcessorFactory{passF}
	case "pass2":
		factories = []h2.StreamProcessorFactory{passF, passF}
	}
	hw := &h2World{k: k, n: simnet.New(k), closing: make(chan bool)}
	n := hw.n
	small := w.Chance(1, 3)
	if small {
		n.DefaultPolicy = []simnet.ChunkPolicy{simnet.ChunkByte, simnet.ChunkSmall, simnet.ChunkMed}[w.Draw(3)]
	} else {
		n.DefaultPolicy = []simnet.ChunkPolicy{simnet.ChunkAll, simnet.ChunkBig, simnet.ChunkMixed}[w.Draw(3)]
	}
	n.DefaultCap = []int{0, 4096, 65536, 600}[w.Pick([]int{3, 2, 2, 1})]
	n.TCPLikeConns = w.Chance(1, 2)
	if focus == "C09" {
		n.ResetOnCloseWithUnread = n.TCPLikeConns && w.Chance(1, 2) // close(2) with unread input resets a TCP connection
		if n.ResetOnCloseWithUnread {
			k.Probe("network_resets_on_close_with_unread_input")
		}
	}
	hw.start(factories)
	cl, sv := hw.cl, hw.sv

	// Receiver window behaviour.
	windows := focus == "C09" || w.Chance(1, 3)
	if windows {
		cl.NoAutoGrant, sv.NoAutoGrant = w.Chance(2, 3), w.Chance(2, 3)
	}
	winVals := []uint32{65535, 0, 1, 100, 4000, 70000, 200000}
	clSettings, svSettings := []http2.Setting{}, []http2.Setting{}
	if windows && w.Chance(2, 3) {
		svSettings = append(svSettings, http2.Setting{ID: http2.SettingInitialWindowSize, Val: winVals[w.Draw(len(winVals))]})
	}
	if windows && w.Chance(2, 3) {
		clSettings = append(clSettings, http2.Setting{ID: http2.SettingInitialWindowSize, Val: winVals[w.Draw(len(winVals))]})
	}
	if w.Chance(1, 3) {
		clSettings = append(clSettings, http2.Setting{ID: http2.SettingHeaderTableSize, Val: []uint32{0, 64, 256, 16384}[w.Draw(4)]})
	}
	if w.Chance(1, 5) {
		svSettings = append(svSettings, http2.Setting{ID: http2.SettingHeaderTableSize, Val: []uint32{8192, 65536}[w.Draw(2)]})
	}
	if w.Chance(1, 4) {
		svSettings = append(svSettings, http2.Setting{ID: http2.SettingMaxFrameSize, Val: []uint32{16384, 20000, 65536}[w.Draw(3)]})
	}
	if w.Chance(1, 4) {
		clSettings = append(clSettings, http2.Setting{ID: http2.SettingMaxFrameSize, Val: []uint32{16384, 20000, 65536}[w.Draw(3)]})
	}
	if w.Chance(1, 6) {
		clSettings = append(clSettings, http2.Setting{ID: http2.SettingEnablePush, Val: 1}, http2.Setting{ID: http2.SettingMaxConcurrentStreams, Val: 100})
	}

	// ---- scripts ----
	nstreams := w.Range(1, 4)
	heavy := w.Chance(1, 4)
	dataSizes := []int{0, 1, 100, 5000, 16384, 9000, 40000}
	if small {
		dataSizes = []int{0, 1, 17, 100, 600}
	}
	type perStream struct{ c, s []*H2Op }
	var streams []perStream
	for i := 0; i < nstreams; i++ {
		id := uint32(2*i + 1)
		var ps perStream
		gen := func(client bool) []*H2Op {
			var ops []*H2Op
			pseudo := []hpack.HeaderField{{Name: ":method", Value: []string{"GET", "POST"}[w.Draw(2)]}, {Name: ":scheme", Value: "https"}, {Name: ":authority", Value: "origin.test"}, {Name: ":path", Value: fmt.Sprintf("/s%d", id)}}
			if !client {
				pseudo = []hpack.HeaderField{{Name: ":status", Value: []string{"200", "404", "204"}[w.Draw(3)]}}
			}
			side := byte('c')
			if !client {
				side = 's'
			}
			nd := w.Draw(4)
			ending := w.Pick([]int{4, 2, 1, 1}) // 0 end on last frame, 1 trailers, 2 rst, 3 left open
			h := &H2Op{Kind: "headers", Stream: id, Fields: genFields(k, pseudo, id, heavy), Cuts: genCuts(k), NeedOpen: !client}
			h.HasPrio, h.Prio = genPrio(k)
			h.End = nd == 0 && ending == 0
			ops = append(ops, h)
			if windows && w.Chance(1, 4) {
				// early credit for the peer's data on this stream, before any of it arrives
				ops = append(ops, &H2Op{Kind: "wupdate", Stream: id, Code: uint32([]int{1, 1000, 30000, 100000}[w.Draw(4)]), NeedOpen: !client})
			}
			var push *H2Op
			pushAt := -1
			if !client && w.Chance(1, 4) {
				push = &H2Op{Kind: "push", Stream: id, Promise: uint32(100 + 2*i), NeedOpen: true,
					Fields: genFields(k, []hpack.HeaderField{{Name: ":method", Value: "GET"}, {Name: ":scheme", Value: "https"}, {Name: ":authority", Value: "origin.test"}, {Name: ":path", Value: fmt.Sprintf("/pushed%d", id)}}, id, false)}
				pushAt = w.Draw(nd + 1) // before the j-th DATA frame, or after the last one
				if w.Chance(1, 4) {
					// the promised request's header block continues in CONTINUATION frames
					push.Cuts = genCuts(k)
					if len(push.Cuts) > 0 {
						k.Probe("push_promise_with_continuation")
					}
				}
			}
			if push != nil && pushAt == 0 && !h.End {
				ops = append(ops, push)
				ops = append(ops, pushedResponse(k, push)...)
			}
			off := 0
			for j := 0; j < nd; j++ {
				sz := dataSizes[w.Draw(len(dataSizes))]
				d := &H2Op{Kind: "data", Stream: id, Data: bodyBytes(int(id), side, off+sz)[off:], Pad: -1, NeedOpen: !client}
				off += sz
				if w.Chance(1, 4) {
					d.Pad = w.Draw(200)
				}
				d.End = j == nd-1 && ending == 0
				ops = append(ops, d)
				if push != nil && pushAt == j+1 && !d.End {
					ops = append(ops, push)
					ops = append(ops, pushedResponse(k, push)...)
				}
				if w.Chance(1, 8) {
					_, pp := true, http2.PriorityParam{StreamDep: uint32(w.Draw(3) * 2), Weight: uint8(w.Draw(255))}
					ops = append(ops, &H2Op{Kind: "priority", Stream: id, Prio: pp, HasPrio: true, NeedOpen: !client})
				}
			}
			switch ending {
			case 1:
				t := &H2Op{Kind: "headers", Stream: id, End: true, NeedOpen: !client, Cuts: genCuts(k),
					Fields: []hpack.HeaderField{{Name: "grpc-status", Value: fmt.Sprint(w.Draw(3))}, {Name: "x-trailer", Value: fmt.Sprintf("t-%d", id)}}}
				ops = append(ops, t)
			case 2:
				ops = append(ops, &H2Op{Kind: "rst", Stream: id, Code: uint32([]int{0, 2, 8, 5}[w.Draw(4)]), NeedOpen: !client})
			}
			return ops
		}
		ps.c = gen(true)
		ps.s = gen(false)
		streams = append(streams, ps)
	}
	// Interleave per-stream sequences into one script per endpoint (new client streams in id order).
	merge := func(client bool) []*H2Op {
		var out []*H2Op
		idx := make([]int, len(streams))
		get := func(i int) []*H2Op {
			if client {
				return streams[i].c
			}
			return streams[i].s
		}
		opened := 0
		for {
			var cand []int
			for i := range streams {
				if idx[i] < len(get(i)) && (i <= opened) {
					cand = append(cand, i)
				}
			}
			if len(cand) == 0 {
				break
			}
			i := cand[w.Draw(len(cand))]
			out = append(out, get(i)[idx[i]])
			idx[i]++
			if i == opened && idx[i] >= 1 {
				opened++
			}
			if w.Chance(1, 10) {
				out = append(out, &H2Op{Kind: "ping", Ping: [8]byte{byte(len(out)), 1, 2, 3, 4, 5, 6, 7}})
			}
			if w.Chance(1, 30) {
				// a frame of a type RFC 7540 does not define (e.g. PRIORITY_UPDATE, 0x10): receivers
				// must ignore it, the session goes on
				out = append(out, &H2Op{Kind: "extension"})
				k.Probe("extension_frame_sent")
			}
			if windows && w.Chance(1, 8) {
				id := http2.SettingInitialWindowSize
				op := &H2Op{Kind: "settings", Settings: []http2.Setting{{ID: id, Val: winVals[w.Draw(len(winVals))]}}}
				if w.Chance(1, 3) {
					// the same identifier twice in one frame: only the last value is ever in force
					op.Settings = append([]http2.Setting{{ID: id, Val: op.Settings[0].Val + uint32([]int{1, 5000, 70000}[w.Draw(3)])}}, op.Settings...)
					k.Probe("settings_frame_repeats_identifier")
				}
				out = append(out, op)
			}
			if w.Chance(1, 25) {
				out = append(out, &H2Op{Kind: "settings", Settings: []http2.Setting{{ID: http2.SettingMaxFrameSize, Val: []uint32{16384, 30000}[w.Draw(2)]}}})
			}
			if w.Chance(1, 20) {
				// the header table size changes in mid-session (often downwards): header blocks the
				// other side encoded before it has seen this frame are on their way meanwhile
				out = append(out, &H2Op{Kind: "settings", Settings: []http2.Setting{{ID: http2.SettingHeaderTableSize, Val: []uint32{0, 64, 200, 4096, 8192}[w.Draw(5)]}}})
				k.Probe("header_table_size_changed_mid_session")
			}
		}
		if w.Chance(1, 8) {
			out = append(out, &H2Op{Kind: "goaway", Last: uint32(2*nstreams - 1), Code: uint32(w.Draw(3)), Debug: []byte("bye")})
		}
		return out
	}
	cl.Script = append([]*H2Op{{Kind: "settings", Settings: clSettings}}, merge(true)...)
	sv.Script = append([]*H2Op{{Kind: "settings", Settings: svSettings}}, merge(false)...)
	k.Note("focus=%s processors=%s policy=%d cap=%d windows=%v(noauto c=%v s=%v) clSettings=%v svSettings=%v streams=%d heavy=%v", focus, procKind, n.DefaultPolicy, n.DefaultCap, windows, cl.NoAutoGrant, sv.NoAutoGrant, clSettings, svSettings, nstreams, heavy)
	for _, e := range []*H2End{cl, sv} {
		var sb strings.Builder
		for _, op := range e.Script {
			switch op.Kind {
			case "headers":
				fmt.Fprintf(&sb, "H%d(%df,cuts%d,end=%v,prio=%v) ", op.Stream, len(op.Fields), len(op.Cuts), op.End, op.HasPrio)
			case "data":
				fmt.Fprintf(&sb, "D%d(%d,pad%d,end=%v) ", op.Stream, len(op.Data), op.Pad, op.End)
			case "settings":
				fmt.Fprintf(&sb, "SETTINGS%v ", op.Settings)
			default:
				fmt.Fprintf(&sb, "%s%d ", op.Kind, op.Stream)
			}
		}
		k.Note("  %s: %s", e.Name, sb.String())
	}

	// Ledger callbacks (C09).
	report := func(e *H2End) {
		e.OnWindow = func(what string, stream uint32, got, allowed int) {
			var tail []string
			for i := len(e.Recv) - 1; i >= 0 && len(tail) < 14; i-- {
				ev := e.Recv[i]
				tail = append([]string{fmt.Sprintf("%s(s%d,%dB)@%d", ev.Kind, ev.Stream, len(ev.Data), ev.Step)}, tail...)
			}
			k.Fail("C09.window_"+what, nil, "%s received %d flow-controlled bytes on %s %d but has granted only %d (initial windows possibly in force %v); last frames received: %v", e.Name, got, what, stream, allowed, e.advInit, tail)
		}
		e.OnFrameSize = func(ev H2Ev, max int) {
			k.Fail("C09.max_frame", map[string]string{"changed_while_queued": fmt.Sprint(len(e.advFrame) > 1 || len(e.Sent) > 1)}, "%s received a %d-byte %s frame on stream %d; its maximum frame size in force is %d (%v)", e.Name, ev.FrameLen, ev.Kind, ev.Stream, max, e.advFrame)
		}
	}
	report(cl)
	report(sv)

	// No-strand check at every network-idle quiescence.
	idleChecks := 0
	k.AddInvariant(func() {
		if k.Failed() {
			return
		}
		if d, _ := hw.done(); d || !sv.gotPreface {
			return // no relay session (yet)
		}
		if len(k.Parked()) > 0 {
			return // a relay goroutine is parked before a mutex (seam R8): not idle
		}
		for _, c := range n.Conns() {
			if c.InFlight() > 0 || c.Unread() > 0 {
				return
			}
		}
		if len(cl.rbuf) > 0 || len(sv.rbuf) > 0 {
			return // a frame is only partly delivered
		}
		for _, pair := range [][2]*H2End{{cl, sv}, {sv, cl}} {
			snd, rcv := pair[0], pair[1]
			if rcv.RdErr != nil || snd.RdErr != nil || rcv.EOF || snd.EOF {
				continue
			}
			sent := map[uint32]int{}
			for _, e := range snd.Sent {
				if e.Kind == "data" {
					sent[e.Stream] += len(e.Data)
				}
			}
			got := map[uint32]int{}
			for _, e := range rcv.Recv {
				if e.Kind == "data" {
					got[e.Stream] += len(e.Data)
				}
			}
			minInit := rcv.advInit[0]
			for _, v := range rcv.advInit {
				if v < minInit {
					minInit = v
				}
			}
			availConn := 65535 + rcv.GrantConn - rcv.RecvFlowConn
			for _, id := range streamsOf(snd.Sent) {
				p := sent[id] - got[id]
				if p <= 0 {
					continue
				}
				availStream := minInit + rcv.GrantStream[id] - rcv.RecvFlow[id]
				idleChecks++
				if availStream >= p && availConn >= p {
					k.Fail("C09.no_strand", nil, "network idle: relay holds %d accepted bytes of stream %d towards %s although %s has granted enough credit for all of them (stream credit %d, connection credit %d)", p, id, rcv.Name, rcv.Name, availStream, availConn)
				} else if availStream > 0 && availConn > 0 {
					// credit for part of the accepted data: a receiver that waits for data before it
					// grants more would otherwise wait for ever
					k.Fail("C09.no_strand", map[string]string{"credit": "partial"}, "network idle: relay holds %d accepted bytes of stream %d towards %s and delivers none of them although %s has %d bytes of stream credit and %d of connection credit open", p, id, rcv.Name, rcv.Name, availStream, availConn)
				} else {
					k.Probe("data_blocked_on_window_at_idle")
				}
			}
			// Frames that are not flow-controlled (trailers, RST_STREAM, PRIORITY, PUSH_PROMISE) wait
			// for nothing but the DATA sent before them on their stream.
			for _, id := range streamsOf(snd.Sent) {
				nonData, bytesBefore := 0, 0
				recvNon := 0
				for _, e := range rcv.Recv {
					if e.Stream == id && (e.Kind == "headers" || e.Kind == "push" || e.Kind == "rst" || e.Kind == "priority") {
						recvNon++
					}
				}
				for _, e := range snd.Sent {
					if e.Stream != id || !(e.Kind == "data" || e.Kind == "headers" || e.Kind == "push" || e.Kind == "rst" || e.Kind == "priority") {
						continue
					}
					if e.Kind == "data" {
						bytesBefore += len(e.Data)
						continue
					}
					if nonData == recvNon {
						// the first such frame the receiver has not got yet
						if got[id] >= bytesBefore {
							k.Fail("C09.no_strand", map[string]string{"kind": "not_flow_controlled"}, "network idle: relay holds a %s frame of stream %d towards %s although every DATA byte sent before it (%d) has been delivered; frames that are not flow-controlled must not wait for window (stream credit %d)", e.Kind, id, rcv.Name, bytesBefore, minInit+rcv.GrantStream[id]-rcv.RecvFlow[id])
						}
						break
					}
					nonData++
				}
			}
		}
	})

	k.StateFn = func() string {
		return fmt.Sprintf("%s|%d.%d.%d|%d.%d.%d", n.Fingerprint(), cl.next, len(cl.Recv), cl.pendConn, sv.next, len(sv.Recv), sv.pendConn)
	}
	// seam R8: a relay goroutine (reader or writer of either direction) can be parked right before
	// it takes one of the relay's mutexes, so that the other goroutines run in between
	k.AddSource(k.GateSource)
	h2.VerifYieldHook = k.LockYield()
	cl.SendPreface()
	k.RunUntil(func() bool {
		d, _ := hw.done()
		return d || (cl.next >= len(cl.Script) && sv.next >= len(sv.Script) && len(k.Parked()) == 0)
	})
	k.Drain()
	k.ReleaseAll()
	k.Drain()
	if focus == "C09" && k.Inconclusive == "" && w.Chance(1, 4) {
		// A sender that has sent everything it had closes its connection (a server after its last
		// response and a GOAWAY, a client that is done). What the relay has accepted from it by then
		// is still owed to the receiver once the receiver's credit covers it: either the credit
		// comes after the close (mode "grant_after_close"), or it was there all along and only the
		// receiver's transport was slow (mode "slow_reader").
		snd, rcv := sv, cl
		if w.Chance(1, 3) {
			snd, rcv = cl, sv
		}
		mode := []string{"grant_after_close", "slow_reader"}[w.Draw(2)]
		wr, _, rd := snd.C.Stats()
		if d, _ := hw.done(); !d && snd.next >= len(snd.Script) && !snd.EOF && !snd.RST && !rcv.EOF && !rcv.RST && wr == rd {
			k.Probe("sender_closes_after_transfer_" + mode)
			if mode == "slow_reader" {
				rcv.C.Peer().Stall(true)
				rcv.OpenAllWindows(streamsOf(snd.Sent))
				k.Drain()
			}
			snd.Close()
			k.Drain()
			if w.Chance(1, 2) {
				// the receiver does not know yet that the other side has gone: a keep-alive PING
				// or two, which the relay cannot deliver any more
				k.Probe("receiver_pings_after_sender_closed")
				rcv.Do(&H2Op{Kind: "ping", Ping: [8]byte{0xab, 1}})
				k.Drain()
				rcv.Do(&H2Op{Kind: "ping", Ping: [8]byte{0xab, 2}})
				k.Drain()
			}
			if mode == "slow_reader" {
				rcv.C.Peer().Stall(false)
				if w.Chance(1, 2) {
					// while it catches up the receiver goes on talking (a PING here; credit returned
					// for what it reads would do the same): bytes that reach the relay's side of
					// the connection when the relay is about to close it
					rcv.Do(&H2Op{Kind: "ping", Ping: [8]byte{0xac, 1}})
				}
			} else if w.Chance(1, 2) {
				// the credit comes in two instalments: the streams first, the connection a little
				// later (what is still queued then waits for connection credit only)
				k.Probe("stream_credit_before_connection_credit")
				for _, id := range streamsOf(snd.Sent) {
					rcv.GrantExtra(id, 1<<24)
				}
				k.Drain()
				k.FastAdvance = true
				k.Advance(200 * time.Millisecond)
				k.FastAdvance = false
				k.Drain()
				rcv.GrantExtra(0, 1<<24)
			} else {
				rcv.OpenAllWindows(streamsOf(snd.Sent))
			}
			k.Drain()
			for _, id := range streamsOf(snd.Sent) {
				se, re := streamEvents(snd.Sent, id), streamEvents(rcv.Recv, id)
				sent, got := 0, 0
				for _, e := range se {
					if e.Kind == "data" {
						sent += len(e.Data)
					}
				}
				for _, e := range re {
					if e.Kind == "data" {
						got += len(e.Data)
					}
				}
				if len(re) < len(se) || got < sent {
					k.Fail("C09.no_strand", map[string]string{"after": "sender_closed", "mode": mode}, "%s had sent everything (the relay had read all %d bytes of its connection) and closed; %s then had credit for all of it (%s), yet of stream %d only %d of %d events and %d of %d DATA bytes arrived (receiver saw end of connection: %v)", snd.Name, wr, rcv.Name, mode, id, len(re), len(se), got, sent, rcv.EOF)
					break
				}
			}
			hw.cleanup()
			return
		}
	}
	// Finally every receiver opens all of its windows wide, so that nothing can legitimately
	// remain queued in the relay.
	cl.OpenAllWindows(streamsOf(sv.Sent))
	sv.OpenAllWindows(streamsOf(cl.Sent))
	k.Drain()
	if k.Inconclusive != "" {
		hw.cleanup()
		return
	}
	h2Oracle(k, hw, focus)
	hw.cleanup()
}

func h2Oracle(k *kernel.K, hw *h2World, focus string) {
	cl, sv := hw.cl, hw.sv
	segs := "whole"
	if hw.n.DefaultPolicy == simnet.ChunkByte || hw.n.DefaultPolicy == simnet.ChunkSmall || hw.n.DefaultPolicy == simnet.ChunkMed || hw.n.DefaultPolicy == simnet.ChunkMixed {
		segs = "dribbled"
	}
	if done, err := hw.done(); done {
		k.Fail("C08.session_established", map[string]string{"preface_segments": segs}, "Config.Proxy returned while both endpoints were still connected: %v", err)
		return
	}
	for _, e := range []*H2End{cl, sv} {
		if e.FirstFrameNotSettings != "" {
			k.Fail("C08.conn_frames", map[string]string{"type": "first_frame_not_settings"}, "%s: the first frame received on the connection is %s; a connection preface starts with a SETTINGS frame (RFC 7540 section 3.5) - receivers treat anything else as a connection error (PROTOCOL_ERROR)", e.Name, e.FirstFrameNotSettings)
			return
		}
		if e.RdErr != nil {
			if strings.Contains(e.RdErr.Error(), "dynamic table size") {
				k.Fail("C08.headers_fields", map[string]string{"stream_order": "table_size_not_honoured"}, "%s: %v", e.Name, e.RdErr)
			} else if strings.Contains(e.RdErr.Error(), "does not decode") {
				k.Fail("C08.headers_fields", map[string]string{"stream_order": "hpack_state_diverged"}, "%s: %v", e.Name, e.RdErr)
			} else {
				k.Fail("C08.order_per_stream", nil, "%s: %v", e.Name, e.RdErr)
			}
			return
		}
	}
	// A PUSH_PROMISE is the first event in the life of the stream it promises: nothing on that stream
	// may reach the client before it (RFC 7540 section 5.1: frames on an idle stream are a
	// connection error).
	promisedAt := map[uint32]int{}
	for i, e := range cl.Recv {
		if e.Kind == "push" {
			promisedAt[e.Promise] = i
		}
	}
	for i, e := range cl.Recv {
		if e.Stream != 0 && e.Stream%2 == 0 && (e.Kind == "headers" || e.Kind == "data" || e.Kind == "rst") {
			if at, ok := promisedAt[e.Stream]; !ok || at > i {
				k.Fail("C08.push_promise", map[string]string{"order": "promised_stream_before_promise"}, "client received a %s frame on promised stream %d before the PUSH_PROMISE that reserves it (PUSH_PROMISE arrived: %v)", e.Kind, e.Stream, ok)
				break
			}
		}
	}
	unsent := false
	for _, e := range []*H2End{cl, sv} {
		if e.next < len(e.Script) {
			unsent = true
			op := e.Script[e.next]
			if op.Kind == "data" {
				k.Probe("sender_out_of_window")
			}
		}
	}
	for _, dir := range []struct {
		name     string
		snd, rcv *H2End
	}{{"client_to_server", cl, sv}, {"server_to_client", sv, cl}} {
		snd, rcv := dir.snd, dir.rcv
		for _, id := range streamsOf(snd.Sent) {
			se, re := streamEvents(snd.Sent, id), streamEvents(rcv.Recv, id)
			desc := fmt.Sprintf("%s stream %d", dir.name, id)
			for i := 0; i < len(se) || i < len(re); i++ {
				if i >= len(re) {
					if se[i].Kind == "data" || (i > 0 && se[i-1].Kind == "data") || true {
						k.Fail(focusID(focus, "C08.order_per_stream", "C09.no_strand"), nil, "%s: event %d of %d sent (%v) never arrived although every window was opened and the network drained; received %d events", desc, i+1, len(se), se[i], len(re))
					}
					break
				}
				if i >= len(se) {
					k.Fail("C08.order_per_stream", nil, "%s: receiver got an extra event %v", desc, re[i])
					break
				}
				s, r := se[i], re[i]
				if s.Kind != r.Kind {
					k.Fail("C08.order_per_stream", nil, "%s: event %d sent as %v arrived as %v", desc, i+1, s, r)
					break
				}
				switch s.Kind {
				case "headers":
					if !sameFields(s.Fields, r.Fields) {
						k.Fail("C08.headers_fields", map[string]string{"stream_order": "in_order"}, "%s: header block %d decodes to [%s], sent [%s]", desc, i+1, fieldsString(r.Fields), fieldsString(s.Fields))
					}
					if s.End != r.End {
						k.Fail("C08.end_stream_position", map[string]string{"on": "headers", "continued": fmt.Sprint(s.Frames > 1)}, "%s: header block %d sent with END_STREAM=%v in %d frame(s), arrived with END_STREAM=%v", desc, i+1, s.End, s.Frames, r.End)
					}
					if s.HasPrio != r.HasPrio || (s.HasPrio && s.Prio != r.Prio) {
						k.Fail("C08.headers_flags", map[string]string{"continued": fmt.Sprint(s.Frames > 1), "priority": fmt.Sprint(s.HasPrio)}, "%s: header block %d priority sent %v %+v, arrived %v %+v", desc, i+1, s.HasPrio, s.Prio, r.HasPrio, r.Prio)
					}
				case "data":
					if !bytes.Equal(s.Data, r.Data) {
						d := firstDiff(r.Data, s.Data)
						id := "C08.data_bytes"
						if len(r.Data) < len(s.Data) && bytes.HasPrefix(s.Data, r.Data) {
							id = focusID(focus, "C08.data_bytes", "C09.no_strand")
						}
						k.Fail(id, nil, "%s: DATA differs at offset %d (sent %d bytes, received %d) although every window was opened and the network drained", desc, d, len(s.Data), len(r.Data))
					} else if s.End != r.End {
						k.Fail("C08.end_stream_position", map[string]string{"on": "data", "continued": "false"}, "%s: DATA sent with END_STREAM=%v arrived with END_STREAM=%v", desc, s.End, r.End)
					}
				case "rst":
					if s.Code != r.Code {
						k.Fail("C08.rst", nil, "%s: RST_STREAM code %d arrived as %d", desc, s.Code, r.Code)
					}
				case "priority":
					if s.Prio != r.Prio {
						k.Fail("C08.priority", nil, "%s: PRIORITY %+v arrived as %+v", desc, s.Prio, r.Prio)
					}
				case "push":
					if s.Promise != r.Promise || !sameFields(s.Fields, r.Fields) {
						k.Fail("C08.push_promise", nil, "%s: PUSH_PROMISE(%d, [%s]) arrived as (%d, [%s])", desc, s.Promise, fieldsString(s.Fields), r.Promise, fieldsString(r.Fields))
					}
				}
			}
		}
		// streams the receiver saw that the sender never used
		for _, id := range streamsOf(rcv.Recv) {
			if len(streamEvents(snd.Sent, id)) == 0 {
				k.Fail("C08.order_per_stream", nil, "%s: receiver got frames on stream %d which the sender never used", dir.name, id)
			}
		}
		// connection-level frames
		sc, rc := connEvents(snd.Sent), connEvents(rcv.Recv)
		for i := 0; i < len(sc) || i < len(rc); i++ {
			if i >= len(sc) || i >= len(rc) {
				k.Fail("C08.conn_frames", map[string]string{"type": "count"}, "%s: %d connection-level frames sent, %d received", dir.name, len(sc), len(rc))
				break
			}
			s, r := sc[i], rc[i]
			ok := s.Kind == r.Kind
			if ok {
				switch s.Kind {
				case "settings":
					ok = fmt.Sprint(s.Settings) == fmt.Sprint(r.Settings)
				case "ping":
					ok = s.Ping == r.Ping
				case "goaway":
					ok = s.Last == r.Last && s.Code == r.Code && bytes.Equal(s.Debug, r.Debug)
				}
			}
			if !ok {
				k.Fail("C08.conn_frames", map[string]string{"type": s.Kind}, "%s: connection-level frame %d sent as %v arrived as %v", dir.name, i+1, s, r)
				break
			}
		}
		// C09 sender ledger: credit returned equals flow-controlled length accepted, no more, no less.
		padded := false
		for _, e := range snd.Sent {
			if e.Kind == "data" && e.Padded {
				padded = true
			}
		}
		for _, id := range streamsOf(snd.Sent) {
			if snd.SentFlow[id] != snd.CreditStream[id] {
				k.Fail("C09.credit_stream", map[string]string{"padded": fmt.Sprint(padded)}, "%s: relay accepted %d flow-controlled bytes on stream %d from %s and returned %d bytes of stream credit", dir.name, snd.SentFlow[id], id, snd.Name, snd.CreditStream[id])
				break
			}
		}
		if snd.SentFlowConn != snd.CreditConn {
			k.Fail("C09.credit_conn", map[string]string{"padded": fmt.Sprint(padded)}, "%s: relay accepted %d flow-controlled bytes from %s and returned %d bytes of connection credit", dir.name, snd.SentFlowConn, snd.Name, snd.CreditConn)
		}
		if padded {
			k.Probe("padded_data_sent")
		}
	}
	_ = unsent
}

func focusID(focus, c08, c09 string) string {
	if focus == "C09" {
		return c09
	}
	return c08
}

// small aliases used by other worlds of the h2 family
type simnetPolicy = simnet.ChunkPolicy

const (
	polAll   = simnet.ChunkAll
	polBig   = simnet.ChunkBig
	polMixed = simnet.ChunkMixed
	polMed   = simnet.ChunkMed
)

func newNetFor(k *kernel.K) *simnet.Net { return simnet.New(k) }

// pushedResponse: sometimes the server starts the response on the stream it has just promised.
func pushedResponse(k *kernel.K, push *H2Op) []*H2Op {
	if !k.W.Chance(1, 2) {
		return nil
	}
	k.Probe("frames_on_promised_stream")
	return []*H2Op{{Kind: "headers", Stream: push.Promise, End: true, Fields: []hpack.HeaderField{{Name: ":status", Value: "200"}, {Name: "x-pushed", Value: fmt.Sprint(push.Promise)}}}}
}
