package worlds

import (
	"crypto/tls"
	"errors"
	"fmt"
	"net/http"
	"strings"
	"sync"

	"verifsim/kernel"
	"verifsim/simnet"
	"verifsim/wire"

	"github.com/google/martian/v3"
)

// C02M — C02 for requests decrypted inside a MITM tunnel: the CONNECT request and every request
// read from the TLS session behind it run the request and the response modifier exactly once with
// one context each, share one session, errors become Warning headers, skip and hijack work inside
// the tunnel.

func init() {
	register(&World{
		Name: "C02M", Prop: "C02", Run: runC02M, MaxSteps: 40000, WarmCrypto: true,
		Real: []string{"martian.Proxy MITM branch of handle (CONNECT answered locally, tls.Server handshake, requests read from the TLS session)", "martian.Context / Session (link, unlink, setConn, Hijack, SkipRoundTrip)", "mitm.Config", "crypto/tls on both legs", "net/http.Transport (TLS upstream)"},
		Stub: append([]string{"CONNECT+TLS client actors (real crypto/tls over simnet)", "TLS origin actors", "harness request/response modifiers with controller-owned gates", "harness CA (ECDSA)"}, commonStub...),
	})
}

func runC02M(k *kernel.K) {
	w := k.W
	n := simnet.New(k)
	n.DefaultPolicy = simnet.ChunkPolicy(w.Pick([]int{5, 3, 1, 1, 0, 2}))
	n.TCPLikeConns = w.Chance(1, 2)
	env := newTLSEnv()
	mc := env.mitmConfig()
	proxy := martian.NewProxy()
	proxy.SetDial(n.DialFunc("proxy"))
	proxy.SetMITM(mc)
	proxy.GetRoundTripper().(*http.Transport).TLSClientConfig = &tls.Config{RootCAs: env.pool}
	base := n.Listen("10.0.0.1:8080")
	go proxy.Serve(base)
	k.AddSource(k.GateSource)
	liveBase := martian.VerifLiveContexts()

	plans := map[int]*c02Plan{}
	var mu sync.Mutex
	var calls []*c02Call
	connectReqs := map[string]*http.Request{}
	record := func(c *c02Call) {
		mu.Lock()
		calls = append(calls, c)
		mu.Unlock()
	}
	doHijack := func(c *c02Call, ctx *martian.Context) {
		conn, _, err := ctx.Session().Hijack()
		c.hijackErr = err
		if err != nil {
			return
		}
		c.hijacked = true
		conn.Write([]byte(fmt.Sprintf("HTTP/1.1 599 Hijacked\r\nContent-Length: 8\r\nX-Hijack: %d-%s\r\n\r\nHIJACKED", c.id, c.phase)))
	}
	proxy.SetRequestModifier(martian.RequestModifierFunc(func(req *http.Request) error {
		id := c02ID(req)
		ctx := martian.NewContext(req)
		c := &c02Call{phase: "req", id: id, step: k.StepN, req: req, ctx: ctx, remote: req.RemoteAddr, dialsIn: n.Dials()}
		if ctx != nil {
			c.ctxID, c.sess = ctx.ID(), ctx.Session()
			if c.sess != nil {
				c.sessID = c.sess.ID()
			}
		}
		record(c)
		if req.Method == "CONNECT" {
			mu.Lock()
			connectReqs[req.RemoteAddr] = req
			mu.Unlock()
		} else {
			// the CONNECT exchange of this connection ended when its 200 was written: its context
			// must not be retrievable any more while the requests inside the tunnel are handled
			mu.Lock()
			cr := connectReqs[req.RemoteAddr]
			mu.Unlock()
			if cr != nil && martian.NewContext(cr) != nil {
				k.Fail("C02.ctx_released", map[string]string{"mode": "mitm", "when": "during_tunnelled_exchange"}, "while decrypted exchange #%d is in its request modifier a context is still retrievable for the CONNECT request of the same connection, whose exchange ended when its response was written", id)
			}
		}
		p := plans[id]
		defer func() {
			c.retStep = k.StepN
			c.dialsOut = n.Dials()
		}()
		if p == nil || ctx == nil {
			return nil
		}
		if p.parkReq {
			k.Park(fmt.Sprintf("reqmod#%d", id))
		}
		switch p.reqBeh {
		case "mutate":
			req.Header.Set("X-Mutated", fmt.Sprint(id))
		case "error":
			return fmt.Errorf("reqmod-error-%d", id)
		case "skip":
			ctx.SkipRoundTrip()
		case "hijack":
			doHijack(c, ctx)
		}
		return nil
	}))
	proxy.SetResponseModifier(martian.ResponseModifierFunc(func(res *http.Response) error {
		req := res.Request
		id := -1
		var ctx *martian.Context
		if req != nil {
			id = c02ID(req)
			ctx = martian.NewContext(req)
		}
		c := &c02Call{phase: "res", id: id, step: k.StepN, req: req, ctx: ctx, status: res.StatusCode}
		if ctx != nil {
			c.ctxID, c.sess = ctx.ID(), ctx.Session()
			if c.sess != nil {
				c.sessID = c.sess.ID()
			}
		}
		record(c)
		p := plans[id]
		defer func() { c.retStep = k.StepN }()
		res.Header.Set("X-Resmod", fmt.Sprint(id))
		if p == nil || ctx == nil {
			return nil
		}
		if p.parkRes {
			k.Park(fmt.Sprintf("resmod#%d", id))
		}
		switch p.resBeh {
		case "mutate":
			res.Header.Set("X-Mutated", fmt.Sprint(id))
		case "error":
			return errors.New("resmod-error-" + fmt.Sprint(id))
		case "hijack":
			doHijack(c, ctx)
		}
		return nil
	}))

	type mconn struct {
		cl      *TLSClient
		host    string
		origin  *TLSOrigin
		connect *c02Plan
		inner   []*c02Plan
		sent    int // inner requests sent
		begun   bool
	}
	nconn := w.Range(1, 2)
	var conns []*mconn
	id := 1
	for ci := 0; ci < nconn; ci++ {
		cid := 100 + ci
		host := fmt.Sprintf("x%d.secure.test", cid)
		mcn := &mconn{host: host}
		mcn.origin = NewTLSOrigin(k, n, env, host+":443", []string{host}, func(req *wire.Msg) []byte {
			p := plans[exchangeID(req.Target)]
			if p == nil || p.resp == nil {
				return []byte("HTTP/1.1 500 Unplanned\r\nContent-Length: 0\r\n\r\n")
			}
			return p.resp.Encode(req.Method)
		})
		cp := &c02Plan{id: cid, conn: ci, connect: true}
		cp.reqBeh = []string{"pass", "mutate", "error", "hijack"}[w.Pick([]int{10, 2, 4, 1})]
		cp.resBeh = []string{"pass", "mutate", "error", "hijack"}[w.Pick([]int{10, 2, 4, 1})]
		cp.parkReq, cp.parkRes = w.Chance(1, 3), w.Chance(1, 3)
		plans[cid] = cp
		mcn.connect = cp
		k.Note("c%d CONNECT #%d %s:443 req=%s(park %v) res=%s(park %v)", ci, cid, host, cp.reqBeh, cp.parkReq, cp.resBeh, cp.parkRes)
		nreq := w.Range(1, 3)
		for j := 0; j < nreq; j++ {
			p := &c02Plan{id: id, conn: ci}
			p.reqBeh = []string{"pass", "mutate", "error", "skip", "hijack"}[w.Pick([]int{5, 2, 3, 3, 2})]
			p.resBeh = []string{"pass", "mutate", "error", "hijack"}[w.Pick([]int{6, 2, 3, 2})]
			p.parkReq, p.parkRes = w.Chance(1, 2), w.Chance(1, 2)
			p.spec = &ReqSpec{ID: id, Method: []string{"GET", "POST"}[w.Pick([]int{3, 1})], Host: host, Path: fmt.Sprintf("/x%d/p", id)}
			if w.Chance(1, 4) {
				p.spec.Abs, p.spec.Scheme = true, "https"
			}
			if p.spec.Method == "POST" {
				p.spec.Framing = []string{"cl", "chunked"}[w.Draw(2)]
				p.spec.Body = bodyBytes(id, 'q', w.Range(0, 2000))
			}
			p.resp = &RespSpec{Status: []int{200, 404, 500}[w.Pick([]int{4, 1, 1})], Framing: []string{"cl", "chunked"}[w.Draw(2)], Body: bodyBytes(id, 'r', w.Range(0, 3000))}
			plans[id] = p
			mcn.inner = append(mcn.inner, p)
			k.Note("c%d #%d %s %s req=%s(park %v) res=%s(park %v)", ci, id, p.spec.Method, p.spec.Target(), p.reqBeh, p.parkReq, p.resBeh, p.parkRes)
			id++
			if p.reqBeh == "hijack" || p.resBeh == "hijack" {
				break
			}
		}
		mcn.cl = NewTLSClient(k, base, fmt.Sprintf("cl%d", ci), fmt.Sprintf("10.1.0.%d", ci+2), &tls.Config{RootCAs: env.pool, ServerName: host})
		conns = append(conns, mcn)
	}
	finished := func(m *mconn) bool {
		if !m.begun {
			return false
		}
		if !m.cl.started {
			m.cl.mu.Lock()
			eof := m.cl.EOF
			m.cl.mu.Unlock()
			return eof
		}
		fin, _, hsErr, eof, _, _ := m.cl.Snapshot()
		return hsErr != nil || eof || (m.sent == len(m.inner) && len(fin) >= len(m.inner))
	}
	k.AddSource(func(add func(kernel.Action)) {
		if k.Draining {
			return
		}
		for _, m := range conns {
			m := m
			switch {
			case !m.begun:
				add(kernel.Action{Key: m.cl.Name + " connect", W: 3, Class: kernel.Actor, Do: func() {
					m.begun = true
					m.cl.SendConnect(m.host+":443", "")
				}})
			case !m.cl.started:
				if m.cl.Connected() {
					add(kernel.Action{Key: m.cl.Name + " start tls", W: 3, Class: kernel.Actor, Do: m.cl.Start})
				}
			default:
				fin, hsDone, hsErr, eof, _, _ := m.cl.Snapshot()
				if !hsDone || hsErr != nil || eof || m.sent >= len(m.inner) || len(fin) < m.sent {
					continue
				}
				p := m.inner[m.sent]
				add(kernel.Action{Key: fmt.Sprintf("%s send #%d", m.cl.Name, p.id), W: 3, Class: kernel.Actor, Do: func() {
					m.sent++
					m.cl.Send(p.spec.Method, p.spec.Encode())
				}})
			}
		}
	})
	k.StateFn = func() string {
		var sb strings.Builder
		sb.WriteString(n.Fingerprint())
		for _, m := range conns {
			fin, hs, _, eof, _, _ := m.cl.Snapshot()
			fmt.Fprintf(&sb, "|%d.%d.%v.%v", m.sent, len(fin), hs, eof)
		}
		fmt.Fprintf(&sb, "|g%d", len(k.Parked()))
		return sb.String()
	}
	k.RunUntil(func() bool {
		for _, m := range conns {
			if !finished(m) {
				return false
			}
		}
		return len(k.Parked()) == 0
	})
	k.Drain()
	cleanup := func() {
		k.ReleaseAll()
		for _, m := range conns {
			m.cl.Close()
		}
		k.Drain()
		n.Shutdown()
		k.Settle()
		for _, m := range conns {
			if m.cl.started {
				close(m.cl.cmds)
			}
		}
		k.Settle()
	}
	if k.Inconclusive != "" {
		cleanup()
		return
	}

	// ---- oracle over the recorded history ----
	mu.Lock()
	hist := append([]*c02Call(nil), calls...)
	mu.Unlock()
	byID := map[int]map[string][]*c02Call{}
	for _, c := range hist {
		if byID[c.id] == nil {
			byID[c.id] = map[string][]*c02Call{}
		}
		byID[c.id][c.phase] = append(byID[c.id][c.phase], c)
	}
	mode := map[string]string{"mode": "mitm"}
	type retainedReq struct {
		desc string
		req  *http.Request
	}
	var retained []retainedReq
	ctxIDs := map[string]int{}
	connOfSess := map[*martian.Session]int{}
	for ci, m := range conns {
		originReqs := map[int][]*wire.Msg{}
		for _, r := range m.origin.Requests() {
			originReqs[exchangeID(r.Target)] = append(originReqs[exchangeID(r.Target)], r)
		}
		fin, hsDone, hsErr, eof, perr, raw := m.cl.Snapshot()
		var sess *martian.Session
		checkCommon := func(p *c02Plan, desc string) (q *c02Call, rs []*c02Call, ok bool) {
			rq := byID[p.id]["req"]
			rs = byID[p.id]["res"]
			if len(rq) != 1 {
				k.Fail("C02.reqmod_once", mode, "%s: request modifier ran %d times", desc, len(rq))
				return nil, rs, false
			}
			q = rq[0]
			if q.ctx == nil {
				k.Fail("C02.ctx_same", mode, "%s: no context retrievable inside the request modifier", desc)
				return nil, rs, false
			}
			if prev, dup := ctxIDs[q.ctxID]; dup && prev != p.id {
				k.Fail("C02.ctx_id_unique", mode, "%s: context ID %s already used by exchange #%d", desc, q.ctxID, prev)
			}
			ctxIDs[q.ctxID] = p.id
			if sess != nil && sess != q.sess {
				k.Fail("C02.session_scope", mode, "%s: session differs from the one the CONNECT request and earlier requests of this connection had", desc)
			}
			sess = q.sess
			if c0, ok := connOfSess[q.sess]; ok && c0 != ci {
				k.Fail("C02.session_scope", mode, "%s: session is shared with connection %d", desc, c0)
			}
			connOfSess[q.sess] = ci
			retained = append(retained, retainedReq{desc, q.req})
			return q, rs, true
		}
		checkRes := func(p *c02Plan, q *c02Call, rs []*c02Call, path, desc string) {
			if len(rs) != 1 {
				k.Fail("C02.resmod_once", map[string]string{"path": path, "mode": "mitm"}, "%s: response modifier ran %d times", desc, len(rs))
			}
			if len(rs) >= 1 {
				r := rs[0]
				if r.req != q.req {
					k.Fail("C02.resmod_request_identity", mode, "%s: res.Request in the response modifier is not the request the request modifier saw", desc)
				}
				if r.ctx != q.ctx {
					k.Fail("C02.ctx_same", mode, "%s: response modifier saw context %q, request modifier saw %q", desc, r.ctxID, q.ctxID)
				}
				if r.step < q.retStep {
					k.Fail("C02.resmod_once", map[string]string{"path": path, "mode": "mitm"}, "%s: response modifier entered (step %d) before the request modifier returned (step %d)", desc, r.step, q.retStep)
				}
			}
		}
		// the CONNECT request itself
		if !m.begun {
			continue
		}
		cdesc := fmt.Sprintf("CONNECT #%d (%s:443, reqmod=%s resmod=%s, conn %s)", m.connect.id, m.host, m.connect.reqBeh, m.connect.resBeh, m.cl.Name)
		cq, crs, ok := checkCommon(m.connect, cdesc)
		if !ok {
			continue
		}
		if m.connect.reqBeh == "hijack" || m.connect.resBeh == "hijack" {
			// The CONNECT exchange itself was hijacked: the hijacker's bytes are the only answer,
			// the proxy writes nothing (no 200) and closes the connection once the modifier returns.
			phase := "res"
			if m.connect.reqBeh == "hijack" {
				phase = "req"
				if len(crs) > 0 {
					k.Fail("C02.resmod_once", map[string]string{"path": "hijacked_on_request", "mode": "mitm_connect"}, "%s: response modifier ran %d times although the request modifier hijacked the session", cdesc, len(crs))
				}
			}
			k.Probe("mitm_connect_hijack_" + phase)
			msgs := m.cl.PlainP.Msgs
			if len(msgs) < 1 || msgs[0].Status != 599 || string(msgs[0].Body) != "HIJACKED" {
				st := -1
				if len(msgs) > 0 {
					st = msgs[0].Status
				}
				k.Fail("C02.hijack_closed", map[string]string{"phase": phase, "mode": "mitm_connect"}, "%s: the client did not receive the hijacker's bytes as the answer to its CONNECT (%d responses, first status %d)", cdesc, len(msgs), st)
			} else if len(msgs) > 1 || len(m.cl.PlainP.Raw) > 0 || m.cl.PlainP.Cur != nil {
				k.Fail("C02.hijack_no_io", map[string]string{"phase": phase, "mode": "mitm_connect", "op": "write"}, "%s: bytes other than the hijacker's reached the client after the hijack (%d responses, %d further bytes)", cdesc, len(msgs), len(m.cl.PlainP.Raw))
			}
			m.cl.mu.Lock()
			eof := m.cl.EOF
			m.cl.mu.Unlock()
			if !eof {
				k.Fail("C02.hijack_closed", map[string]string{"phase": phase, "mode": "mitm_connect"}, "%s: at network quiescence the proxy has not closed the hijacked connection", cdesc)
			}
			continue
		}
		checkRes(m.connect, cq, crs, "mitm_connect", cdesc)
		if len(m.cl.PlainP.Msgs) == 0 || m.cl.PlainP.Msgs[0].Status != 200 {
			k.Fail("C02.error_continues", mode, "%s: CONNECT was not answered with 200 (responses %d)", cdesc, len(m.cl.PlainP.Msgs))
			continue
		}
		cres := m.cl.PlainP.Msgs[0]
		if !cres.Has("X-Resmod") {
			k.Fail("C02.resmod_once", map[string]string{"path": "mitm_connect", "mode": "mitm"}, "%s: the 200 at the client did not pass through the response modifier", cdesc)
		}
		if m.connect.resBeh == "error" {
			k.Probe("mitm_connect_resmod_error")
			if ws := strings.Join(cres.Get("Warning"), "|"); !strings.Contains(ws, fmt.Sprintf("resmod-error-%d", m.connect.id)) {
				k.Fail("C02.error_to_warning", map[string]string{"side": "response", "mode": "mitm"}, "%s: client received Warning %q on the CONNECT response, want one carrying the modifier's error", cdesc, ws)
			}
		}
		if m.connect.reqBeh == "error" {
			k.Probe("mitm_connect_reqmod_error")
		}
		if !m.cl.started {
			continue
		}
		if !hsDone || hsErr != nil {
			k.Fail("C02.error_continues", mode, "%s: TLS handshake inside the tunnel failed: done=%v err=%v", cdesc, hsDone, hsErr)
			continue
		}
		k.Probe("mitm_tunnel_established")
		for j, p := range m.inner {
			if j >= m.sent {
				break
			}
			desc := fmt.Sprintf("decrypted exchange #%d (%s %s, reqmod=%s resmod=%s, request %d inside the tunnel of %s)", p.id, p.spec.Method, p.spec.Target(), p.reqBeh, p.resBeh, j+1, m.cl.Name)
			q, rs, ok := checkCommon(p, desc)
			if !ok {
				continue
			}
			hijackedOnReq := p.reqBeh == "hijack"
			hijackedOnRes := !hijackedOnReq && p.resBeh == "hijack"
			path := "normal"
			if p.reqBeh == "skip" {
				path = "skip"
			}
			if hijackedOnReq {
				if len(rs) != 0 {
					k.Fail("C02.resmod_once", map[string]string{"path": "hijacked_on_request", "mode": "mitm"}, "%s: response modifier ran %d times although the request modifier hijacked the session", desc, len(rs))
				}
				if len(originReqs[p.id]) > 0 {
					k.Fail("C02.hijack_no_io", map[string]string{"phase": "req", "mode": "mitm", "op": "upstream"}, "%s: origin was contacted after the session was hijacked", desc)
				}
			} else {
				checkRes(p, q, rs, path, desc)
			}
			if hijackedOnReq || hijackedOnRes {
				phase, hc := "req", q
				if hijackedOnRes {
					phase = "res"
					if len(rs) >= 1 {
						hc = rs[0]
					}
				}
				if !hc.hijacked {
					k.Fail("C02.hijack_closed", map[string]string{"phase": phase, "mode": "mitm"}, "%s: Session.Hijack failed: %v", desc, hc.hijackErr)
					continue
				}
				k.Probe("mitm_hijack_" + phase)
				if j >= len(fin) || fin[j].Status != 599 || fin[j].First("X-Hijack") != fmt.Sprintf("%d-%s", p.id, phase) {
					k.Fail("C02.hijack_closed", map[string]string{"phase": phase, "mode": "mitm"}, "%s: the TLS client did not receive the hijacker's bytes as the answer (responses=%d, parse error %v)", desc, len(fin), perr)
				} else if len(fin) > j+1 || len(raw) > 0 || perr != nil {
					k.Fail("C02.hijack_no_io", map[string]string{"phase": phase, "mode": "mitm", "op": "write"}, "%s: bytes other than the hijacker's reached the TLS client after the hijack", desc)
				}
				if !eof {
					k.Fail("C02.hijack_closed", map[string]string{"phase": phase, "mode": "mitm"}, "%s: hijacking modifier returned at step %d; at network quiescence the proxy has not closed the connection", desc, hc.retStep)
				}
				continue
			}
			if j >= len(fin) {
				k.Fail("C02.error_continues", mode, "%s: exchange did not complete: %d responses for %d requests sent (eof=%v, parse error %v)", desc, len(fin), m.sent, eof, perr)
				continue
			}
			resp := fin[j]
			if p.reqBeh == "error" {
				k.Probe("mitm_reqmod_error")
				oms := originReqs[p.id]
				if len(oms) == 0 {
					k.Fail("C02.error_continues", mode, "%s: request modifier returned an error and the request never reached the origin", desc)
				} else if ws := strings.Join(oms[0].Get("Warning"), "|"); !strings.Contains(ws, fmt.Sprintf("reqmod-error-%d", p.id)) {
					k.Fail("C02.error_to_warning", map[string]string{"side": "request", "mode": "mitm"}, "%s: origin received Warning %q, want one carrying the modifier's error", desc, ws)
				}
			}
			if p.resBeh == "error" {
				k.Probe("mitm_resmod_error")
				if ws := strings.Join(resp.Get("Warning"), "|"); !strings.Contains(ws, fmt.Sprintf("resmod-error-%d", p.id)) {
					k.Fail("C02.error_to_warning", map[string]string{"side": "response", "mode": "mitm"}, "%s: client received Warning %q, want one carrying the modifier's error", desc, ws)
				}
			}
			if !resp.Has("X-Resmod") {
				k.Fail("C02.resmod_once", map[string]string{"path": path, "mode": "mitm"}, "%s: response at the client did not pass through the response modifier", desc)
			}
			switch path {
			case "skip":
				k.Probe("mitm_skip")
				if len(originReqs[p.id]) > 0 {
					k.Fail("C02.skip_no_upstream", mode, "%s: origin was contacted although the request modifier asked to skip the round trip", desc)
				}
				if resp.Status != 200 {
					k.Fail("C02.skip_200_resmod", mode, "%s: skipped round trip answered with status %d, want 200", desc, resp.Status)
				}
			case "normal":
				if resp.Status != p.resp.Status || firstDiff(resp.Body, p.resp.Body) >= 0 {
					k.Fail("C02.error_continues", mode, "%s: response differs from the origin's (status %d want %d, body %dB want %dB)", desc, resp.Status, p.resp.Status, len(resp.Body), len(p.resp.Body))
				}
				if len(originReqs[p.id]) != 1 {
					k.Fail("C02.reqmod_once", mode, "%s: origin received the request %d times", desc, len(originReqs[p.id]))
				}
				if p.reqBeh == "mutate" && len(originReqs[p.id]) == 1 && originReqs[p.id][0].First("X-Mutated") != fmt.Sprint(p.id) {
					k.Fail("C02.reqmod_before_upstream", mode, "%s: the request modifier's mutation did not reach the origin", desc)
				}
			}
		}
	}
	for eid, m := range byID {
		if plans[eid] == nil {
			k.Fail("C02.reqmod_once", mode, "modifier called for an exchange nobody sent: id %d (req %d, res %d)", eid, len(m["req"]), len(m["res"]))
		}
	}
	cleanup()
	for _, r := range retained {
		if martian.NewContext(r.req) != nil {
			k.Fail("C02.ctx_released", mode, "%s: a context is still retrievable for the request after the exchange and its connection ended", r.desc)
		}
	}
	if live := martian.VerifLiveContexts() - liveBase; live != 0 {
		k.Fail("C02.ctx_table_empty", mode, "%d request-to-context associations remain after every connection was closed and the network drained", live)
	}
}
