package worlds

import (
	"strings"

	"verifsim/kernel"
)

// stacksOf renders the frames of goroutines whose stack mentions substr (debugging aid and
// violation detail).
func stacksOf(k *kernel.K, substr string) string {
	var sb strings.Builder
	for _, g := range k.Census() {
		if g.Has(substr) {
			sb.WriteString("[" + g.State + "] " + strings.Join(g.Frames, " < ") + "\n")
		}
	}
	return sb.String()
}
