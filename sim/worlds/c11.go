package worlds

import (
	"bytes"
	"compress/zlib"
	"compress/flate"
	"compress/gzip"
	"encoding/binary"
	"fmt"
	"io"
	"net/url"
	"strings"

	"verifsim/kernel"

	"github.com/golang/snappy"
	"github.com/google/martian/v3/h2"
	mgrpc "github.com/google/martian/v3/h2/grpc"
	"golang.org/x/net/http2"
	"golang.org/x/net/http2/hpack"
)

// C11 — gRPC reframing is invariant to DATA fragmentation and compression.
//
// Adapter level: the real grpc adapter/emitter pair (AsStreamProcessorFactory) sits between the
// harness, which plays the relay feeding DATA fragments, and recording sinks built with the
// VerifNewProcessors seam. The "fault" enumerated here is the short read: every way the
// length-prefixed byte stream can be cut into DATA frames (all 2^(n-1) cut sets for streams of
// at most 14 bytes, drawn sets for longer ones).

func init() {
	register(&World{
		Name: "C11", Prop: "C11", Run: runC11, MaxSteps: 1000,
		Real: []string{"h2/grpc adapter (gRPC detection, 5-byte prefix state machine, decompression)", "h2/grpc emitter (recompression, re-prefixing)", "grpc.AsStreamProcessorFactory wiring"},
		Stub: []string{"the relay feeding DATA fragments (harness)", "recording sinks (seam VerifNewProcessors)", "pass-through gRPC processor", "independent gRPC framer and gzip/deflate/snappy-framing decoders"},
	})
}

type grpcMsg struct {
	Payload    []byte
	Compressed bool
}

type recSink struct {
	data     []byte
	ends     int
	endAt    int // len(data) when END_STREAM was seen
	calls    int
	headers  int
	afterEnd bool
	chunks   [][]byte
	chunkEnd []bool
}

func (s *recSink) Data(b []byte, end bool) error {
	if s.ends > 0 {
		s.afterEnd = true
	}
	s.calls++
	s.data = append(s.data, b...)
	s.chunks = append(s.chunks, append([]byte(nil), b...))
	s.chunkEnd = append(s.chunkEnd, end)
	if end {
		s.ends++
		s.endAt = len(s.data)
	}
	return nil
}
func (s *recSink) Header(h []hpack.HeaderField, end bool, p http2.PriorityParam) error {
	s.headers++
	if end {
		s.ends++
		s.endAt = len(s.data)
	}
	return nil
}
func (s *recSink) Priority(http2.PriorityParam) error            { return nil }
func (s *recSink) RSTStream(http2.ErrCode) error                 { return nil }
func (s *recSink) PushPromise(uint32, []hpack.HeaderField) error { return nil }

type recCall struct {
	data []byte
	end  bool
}

type recProc struct {
	next  mgrpc.Processor
	calls []recCall
}

func (r *recProc) Header(h []hpack.HeaderField, end bool, p http2.PriorityParam) error {
	return r.next.Header(h, end, p)
}
func (r *recProc) Message(data []byte, end bool) error {
	r.calls = append(r.calls, recCall{append([]byte(nil), data...), end})
	return r.next.Message(data, end)
}

func grpcCompress(enc string, b []byte) []byte {
	var buf bytes.Buffer
	switch enc {
	case "gzip":
		w := gzip.NewWriter(&buf)
		w.Write(b)
		w.Close()
	case "deflate":
		w, _ := flate.NewWriter(&buf, flate.BestSpeed)
		w.Write(b)
		w.Close()
	case "deflateZ": // "deflate" in the zlib container (RFC 1950), which is what gRPC C core, grpc-js and grpc-dotnet send
		w := zlib.NewWriter(&buf)
		w.Write(b)
		w.Close()
	case "snappy":
		w := snappy.NewBufferedWriter(&buf) // framing format, as gRPC's snappy compressors use
		w.Write(b)
		w.Close()
	default:
		return b
	}
	return buf.Bytes()
}

func grpcDecompress(enc string, b []byte) ([]byte, error) {
	switch enc {
	case "gzip":
		r, err := gzip.NewReader(bytes.NewReader(b))
		if err != nil {
			return nil, err
		}
		return io.ReadAll(r)
	case "deflate":
		return io.ReadAll(flate.NewReader(bytes.NewReader(b)))
	case "deflateZ":
		r, err := zlib.NewReader(bytes.NewReader(b))
		if err != nil {
			return nil, err
		}
		return io.ReadAll(r)
	case "snappy":
		return io.ReadAll(snappy.NewReader(bytes.NewReader(b)))
	}
	return b, nil
}

// grpcEncodeStream renders messages as the gRPC length-prefixed byte stream.
func grpcEncodeStream(enc string, msgs []grpcMsg) []byte {
	var out []byte
	for _, m := range msgs {
		p := m.Payload
		flag := byte(0)
		if m.Compressed {
			p = grpcCompress(enc, p)
			flag = 1
		}
		var hdr [5]byte
		hdr[0] = flag
		binary.BigEndian.PutUint32(hdr[1:], uint32(len(p)))
		out = append(append(out, hdr[:]...), p...)
	}
	return out
}

// grpcParseStream is the harness's own parser of the wire format.
func grpcParseStream(enc string, b []byte) ([]grpcMsg, error) {
	var out []grpcMsg
	for len(b) > 0 {
		if len(b) < 5 {
			return out, fmt.Errorf("truncated length prefix (%d trailing bytes)", len(b))
		}
		flag := b[0]
		n := int(binary.BigEndian.Uint32(b[1:5]))
		b = b[5:]
		if flag > 1 {
			return out, fmt.Errorf("compressed flag %d", flag)
		}
		if n > len(b) {
			return out, fmt.Errorf("message of %d bytes announced, %d present", n, len(b))
		}
		p := b[:n]
		b = b[n:]
		if flag == 1 {
			d, err := grpcDecompress(enc, p)
			if err != nil {
				return out, fmt.Errorf("message %d does not decode as %s: %v", len(out), enc, err)
			}
			p = d
		}
		out = append(out, grpcMsg{Payload: append([]byte(nil), p...), Compressed: flag == 1})
	}
	return out, nil
}

type c11Case struct {
	enc       string
	ct        string // content-type of a gRPC stream
	respPlain bool   // the request is gRPC, the response (the direction under test) is not
	grpc      bool
	msgs      []grpcMsg
	stream    []byte
	placement string // last_data | separate_empty
	dir       h2.Direction
}

func (c *c11Case) String() string {
	var sb strings.Builder
	for _, m := range c.msgs {
		fmt.Fprintf(&sb, "%d%s ", len(m.Payload), map[bool]string{true: "c", false: ""}[m.Compressed])
	}
	return fmt.Sprintf("enc=%s ct=%s resp_plain=%v grpc=%v dir=%d end=%s msgs=[%s] stream=%dB", c.enc, c.ct, c.respPlain, c.grpc, c.dir, c.placement, strings.TrimSpace(sb.String()), len(c.stream))
}

// c11Feed pushes the stream through a fresh adapter pair, cut at the given points.
// c11Factory is the one factory value of a run: like the one a proxy is configured with, it is
// asked for the processors of every stream, gRPC or not, one after the other.
type c11Factory struct {
	f          h2.StreamProcessorFactory
	recC, recS *recProc
	primed     bool
}

func newC11Factory() *c11Factory {
	cf := &c11Factory{}
	cf.f = mgrpc.AsStreamProcessorFactory(func(_ *url.URL, server, client mgrpc.Processor) (mgrpc.Processor, mgrpc.Processor) {
		cf.recC, cf.recS = &recProc{next: server}, &recProc{next: client}
		return cf.recC, cf.recS
	})
	return cf
}

var c11CurFactory *c11Factory

func c11Feed(c *c11Case, cuts []int) (rec *recProc, sink *recSink, err error) {
	cf := c11CurFactory
	if cf == nil {
		cf = newC11Factory()
	}
	u, _ := url.Parse("https://origin.test")
	if !c.grpc && !cf.primed {
		// an earlier stream of the same session was a gRPC stream
		cf.primed = true
		p, _ := cf.f(u, h2.VerifNewProcessors(&recSink{}, &recSink{}))
		p.Header([]hpack.HeaderField{{Name: ":method", Value: "POST"}, {Name: ":path", Value: "/svc/Earlier"}, {Name: "content-type", Value: "application/grpc"}}, false, http2.PriorityParam{})
		p.Data([]byte{0, 0, 0, 0, 1, 'x'}, true)
	}
	sinkC, sinkS := &recSink{}, &recSink{}
	cToS, sToC := cf.f(u, h2.VerifNewProcessors(sinkC, sinkS))
	recC, recS := cf.recC, cf.recS
	ct := "application/grpc"
	if c.ct != "" {
		ct = c.ct
	}
	if !c.grpc && !c.respPlain {
		ct = "application/json"
	}
	encH := c.enc
	if encH == "deflateZ" {
		encH = "deflate"
	}
	reqH := []hpack.HeaderField{{Name: ":method", Value: "POST"}, {Name: ":path", Value: "/svc/M"}, {Name: "content-type", Value: ct}}
	if c.enc != "" {
		reqH = append(reqH, hpack.HeaderField{Name: "grpc-encoding", Value: encH})
	}
	if err := cToS.Header(reqH, false, http2.PriorityParam{}); err != nil {
		return nil, nil, err
	}
	proc, rec, sink := cToS, recC, sinkC
	if c.dir == h2.ServerToClient {
		respH := []hpack.HeaderField{{Name: ":status", Value: "200"}, {Name: "content-type", Value: ct}}
		if c.enc != "" {
			respH = append(respH, hpack.HeaderField{Name: "grpc-encoding", Value: encH})
		}
		if c.respPlain {
			// an intermediary or the server answers the gRPC request with a plain HTTP error
			respH = []hpack.HeaderField{{Name: ":status", Value: "503"}, {Name: "content-type", Value: "text/html"}}
		}
		if err := sToC.Header(respH, false, http2.PriorityParam{}); err != nil {
			return nil, nil, err
		}
		proc, rec, sink = sToC, recS, sinkS
	}
	sink.headers = 0
	prev := 0
	pts := append(append([]int(nil), cuts...), len(c.stream))
	for i, p := range pts {
		last := i == len(pts)-1
		end := last && c.placement == "last_data"
		if err := proc.Data(c.stream[prev:p], end); err != nil {
			return rec, sink, err
		}
		prev = p
	}
	if c.placement == "separate_empty" {
		if err := proc.Data(nil, true); err != nil {
			return rec, sink, err
		}
	}
	return rec, sink, nil
}

func c11Check(k *kernel.K, c *c11Case, cuts []int) {
	rec, sink, err := c11Feed(c, cuts)
	desc := fmt.Sprintf("%v cuts=%v", c, cuts)
	if err != nil {
		k.Fail("C11.messages_seen", nil, "%s: adapter returned an error: %v", desc, err)
		return
	}
	lastLen := "none"
	if n := len(c.msgs); n > 0 {
		lastLen = "nonzero"
		if len(c.msgs[n-1].Payload) == 0 {
			lastLen = "zero"
		}
	}
	if !c.grpc {
		if !bytes.Equal(sink.data, c.stream) || sink.ends != 1 || sink.endAt != len(c.stream) || sink.afterEnd {
			k.Fail("C11.non_grpc_untouched", nil, "%s: a stream that is not gRPC reached the destination as %d bytes with %d END_STREAM (sent %d bytes)", desc, len(sink.data), sink.ends, len(c.stream))
		}
		if rec != nil && len(rec.calls) > 0 {
			k.Fail("C11.non_grpc_untouched", nil, "%s: the gRPC processor was shown %d messages of a stream that is not gRPC", desc, len(rec.calls))
		}
		return
	}
	// 1. what the processor was shown
	var seen []recCall
	for i, call := range rec.calls {
		marker := len(call.data) == 0 && call.end && i == len(rec.calls)-1 && c.placement == "separate_empty" && len(rec.calls) == len(c.msgs)+1
		if !marker {
			seen = append(seen, call)
		}
	}
	okSeen := len(seen) == len(c.msgs)
	if okSeen {
		for i := range seen {
			if !bytes.Equal(seen[i].data, c.msgs[i].Payload) {
				okSeen = false
			}
		}
	}
	if !okSeen {
		var got []string
		for _, s := range seen {
			got = append(got, fmt.Sprint(len(s.data)))
		}
		k.Fail("C11.messages_seen", map[string]string{"last_len": lastLen}, "%s: processor was shown %d messages with lengths %v", desc, len(seen), got)
	}
	ends := 0
	for i, call := range rec.calls {
		if call.end {
			ends++
			if i != len(rec.calls)-1 {
				k.Fail("C11.end_stream_once", nil, "%s: processor saw end-of-stream on call %d of %d", desc, i+1, len(rec.calls))
			}
		}
	}
	// 2. what reached the destination
	wire, perr := grpcParseStream(c.enc, sink.data)
	if perr != nil {
		k.Fail("C11.wire_format", map[string]string{"encoding": encName(c.enc)}, "%s: bytes at the destination are not the gRPC wire format in the stream's encoding: %v", desc, perr)
		return
	}
	sameWire := len(wire) == len(c.msgs)
	if sameWire {
		for i := range wire {
			if wire[i].Compressed != c.msgs[i].Compressed || !bytes.Equal(wire[i].Payload, c.msgs[i].Payload) {
				sameWire = false
			}
		}
	}
	if !sameWire {
		if len(wire) == len(c.msgs)+1 && c.placement == "separate_empty" && len(wire[len(wire)-1].Payload) == 0 {
			k.Fail("C11.empty_end_adds_none", nil, "%s: an end-of-stream that carried no message put an extra zero-length message on the wire (%d messages sent, %d at the destination)", desc, len(c.msgs), len(wire))
		} else {
			var got []string
			for _, m := range wire {
				got = append(got, fmt.Sprintf("%d/%v", len(m.Payload), m.Compressed))
			}
			k.Fail("C11.wire_messages", map[string]string{"last_len": lastLen}, "%s: destination received %d messages %v", desc, len(wire), got)
		}
	}
	// 3. end of stream at the destination: exactly once, after the last message
	switch {
	case sink.ends == 0:
		k.Fail("C11.end_stream_after_last", map[string]string{"last_len": lastLen, "placement": c.placement}, "%s: END_STREAM never reached the destination", desc)
	case sink.ends > 1 || sink.afterEnd:
		k.Fail("C11.end_stream_once", nil, "%s: END_STREAM reached the destination %d times (data after it: %v)", desc, sink.ends, sink.afterEnd)
	case sink.endAt != len(sink.data):
		k.Fail("C11.end_stream_after_last", map[string]string{"last_len": lastLen, "placement": c.placement}, "%s: END_STREAM arrived before the last message bytes", desc)
	}
}

func encName(e string) string {
	if e == "" {
		return "unset"
	}
	return e
}

func runC11(k *kernel.K) {
	w := k.W
	c11CurFactory = newC11Factory()
	defer func() { c11CurFactory = nil }()
	c := &c11Case{grpc: !w.Chance(1, 8)}
	c.enc = []string{"", "identity", "gzip", "deflate", "snappy", "deflateZ"}[w.Pick([]int{2, 2, 3, 2, 3, 1})]
	if c.grpc {
		// "application/grpc" [("+proto" / "+json" / {custom})]
		c.ct = []string{"application/grpc", "application/grpc+proto", "application/grpc+json"}[w.Pick([]int{4, 1, 1})]
		if c.ct != "application/grpc" {
			k.Probe("content_type_with_subtype")
		}
	}
	c.placement = []string{"last_data", "separate_empty"}[w.Draw(2)]
	if w.Chance(1, 2) {
		c.dir = h2.ServerToClient
	}
	short := w.Chance(1, 2)
	n := w.Draw(7)
	sizes := []int{0, 1, 5, 100, 3000, 70000}
	if short {
		n = w.Draw(3)
		sizes = []int{0, 0, 1, 2, 3}
	}
	for i := 0; i < n; i++ {
		sz := sizes[w.Draw(len(sizes))]
		m := grpcMsg{Payload: bodyBytes(i+1, 'g', sz)}
		if c.enc != "" && c.enc != "identity" && !short {
			m.Compressed = w.Chance(1, 2)
		}
		if short && c.enc != "" && w.Chance(1, 3) && sz == 0 && c.enc == "identity" {
			m.Compressed = true // flagged compressed under identity: payload passes as is
		}
		c.msgs = append(c.msgs, m)
	}
	c.stream = grpcEncodeStream(c.enc, c.msgs)
	if !c.grpc {
		c.stream = bodyBytes(7, 'j', w.Draw(30))
		if w.Chance(1, 3) {
			// not gRPC in the direction under test only: a plain response to a gRPC request
			c.respPlain, c.dir = true, h2.ServerToClient
			c.stream = append([]byte("<html>"), c.stream...)
			k.Probe("plain_response_to_grpc_request")
		}
	}
	if len(c.stream) == 0 && c.grpc {
		// no bytes at all: the only DATA frame is an empty one carrying END_STREAM
		c.placement = "separate_empty"
	}
	k.Note("%v", c)
	k.Logf("case %v", c)
	L := len(c.stream)
	if L <= 14 {
		// exhaustive: every subset of the L-1 interior cut points
		k.Probe("exhaustive_cut_sets")
		total := 1
		if L > 1 {
			total = 1 << (L - 1)
		}
		for mask := 0; mask < total; mask++ {
			var cuts []int
			for b := 0; b < L-1; b++ {
				if mask&(1<<b) != 0 {
					cuts = append(cuts, b+1)
				}
			}
			c11Check(k, c, cuts)
			k.StepN++
			if k.Failed() {
				break
			}
		}
		k.Probes["cut_sets_checked"] += total
	} else {
		variants := 24
		for v := 0; v < variants; v++ {
			var cuts []int
			switch v {
			case 0: // whole
			case 1: // every byte of the first 64 and message boundaries
				for p := 1; p < L && p < 64; p++ {
					cuts = append(cuts, p)
				}
			default:
				pos := 0
				for {
					pos += []int{1, 2, 4, 5, 6, 37, 1000, 16384, 50000}[w.Draw(9)]
					if pos >= L {
						break
					}
					cuts = append(cuts, pos)
				}
			}
			c11Check(k, c, cuts)
			k.StepN++
			if k.Failed() {
				break
			}
		}
		k.Probes["cut_sets_checked"] += variants
	}
	k.Logf("checked %d", k.StepN)
}

// ---------------------------------------------------------------------------------------
// End to end: the same adapter inside the real relay, between two scripted HTTP/2 endpoints,
// with flow control active (small windows, credit granted in pieces).

func init() {
	register(&World{
		Name: "C11E", Prop: "C11", Run: runC11E, MaxSteps: 40000,
		Real: []string{"h2.Config.Proxy + relay with StreamProcessorFactories = grpc.AsStreamProcessorFactory(...)", "h2/grpc adapter and emitter"},
		Stub: append([]string{"scripted HTTP/2 endpoints with flow-control ledgers", "recording pass-through gRPC processor", "independent gRPC framer + decoders", "upstream dial (seam R1)"}, commonStub...),
	})
}

func runC11E(k *kernel.K) {
	w := k.W
	type recs struct{ c, s *recProc }
	var all []*recs
	factory := mgrpc.AsStreamProcessorFactory(func(_ *url.URL, server, client mgrpc.Processor) (mgrpc.Processor, mgrpc.Processor) {
		r := &recs{&recProc{next: server}, &recProc{next: client}}
		all = append(all, r)
		return r.c, r.s
	})
	hw := &h2World{k: k, n: newNetFor(k), closing: make(chan bool)}
	n := hw.n
	n.DefaultPolicy = []simnetPolicy{polAll, polBig, polMixed, polMed}[w.Draw(4)]
	n.DefaultCap = []int{0, 4096, 65536}[w.Draw(3)]
	hw.start([]h2.StreamProcessorFactory{factory})
	cl, sv := hw.cl, hw.sv
	cl.NoAutoGrant, sv.NoAutoGrant = w.Chance(1, 2), w.Chance(1, 2)
	enc := []string{"", "identity", "gzip", "deflate", "snappy"}[w.Pick([]int{2, 2, 3, 2, 3})]
	mk := func(side int) *c11Case {
		c := &c11Case{grpc: true, enc: enc, placement: []string{"last_data", "separate_empty"}[w.Draw(2)]}
		for i, m := 0, w.Draw(5); i < m; i++ {
			msg := grpcMsg{Payload: bodyBytes(10*side+i, 'g', []int{0, 1, 5, 100, 3000, 40000}[w.Draw(6)])}
			if enc != "" && enc != "identity" {
				msg.Compressed = w.Chance(1, 2)
			}
			c.msgs = append(c.msgs, msg)
		}
		c.stream = grpcEncodeStream(enc, c.msgs)
		if len(c.stream) == 0 {
			c.placement = "separate_empty"
		}
		return c
	}
	reqC, respC := mk(1), mk(2)
	frames := func(c *c11Case, id uint32, needOpen bool) []*H2Op {
		var ops []*H2Op
		pos := 0
		for pos < len(c.stream) {
			nb := []int{1, 4, 5, 6, 100, 5000, 16384}[w.Draw(7)]
			if pos+nb > len(c.stream) {
				nb = len(c.stream) - pos
			}
			ops = append(ops, &H2Op{Kind: "data", Stream: id, Data: c.stream[pos : pos+nb], Pad: -1, NeedOpen: needOpen})
			pos += nb
		}
		if c.placement == "separate_empty" || len(ops) == 0 {
			ops = append(ops, &H2Op{Kind: "data", Stream: id, Pad: -1, End: true, NeedOpen: needOpen})
		} else {
			ops[len(ops)-1].End = true
		}
		return ops
	}
	hdr := func(fs ...hpack.HeaderField) []hpack.HeaderField {
		if enc != "" {
			fs = append(fs, hpack.HeaderField{Name: "grpc-encoding", Value: enc})
		}
		return fs
	}
	winSet := func() []http2.Setting {
		if w.Chance(1, 2) {
			return []http2.Setting{{ID: http2.SettingInitialWindowSize, Val: []uint32{0, 7, 100, 65535}[w.Draw(4)]}}
		}
		return nil
	}
	cl.Script = append([]*H2Op{{Kind: "settings", Settings: winSet()}, {Kind: "headers", Stream: 1, Fields: hdr(hpack.HeaderField{Name: ":method", Value: "POST"}, hpack.HeaderField{Name: ":scheme", Value: "https"}, hpack.HeaderField{Name: ":authority", Value: "origin.test"}, hpack.HeaderField{Name: ":path", Value: "/svc/M"}, hpack.HeaderField{Name: "content-type", Value: "application/grpc"})}}, frames(reqC, 1, false)...)
	sv.Script = append([]*H2Op{{Kind: "settings", Settings: winSet()}, {Kind: "headers", Stream: 1, NeedOpen: true, Fields: hdr(hpack.HeaderField{Name: ":status", Value: "200"}, hpack.HeaderField{Name: "content-type", Value: "application/grpc"})}}, frames(respC, 1, true)...)
	k.Note("e2e enc=%s request: %v | response: %v | noauto c=%v s=%v", enc, reqC, respC, cl.NoAutoGrant, sv.NoAutoGrant)
	k.StateFn = func() string {
		return fmt.Sprintf("%s|%d.%d.%d|%d.%d.%d", n.Fingerprint(), cl.next, len(cl.Recv), cl.pendConn, sv.next, len(sv.Recv), sv.pendConn)
	}
	cl.SendPreface()
	k.RunUntil(func() bool {
		d, _ := hw.done()
		return d || (cl.next >= len(cl.Script) && sv.next >= len(sv.Script))
	})
	k.Drain()
	cl.OpenAllWindows([]uint32{1})
	sv.OpenAllWindows([]uint32{1})
	k.Drain()
	if k.Inconclusive != "" {
		hw.cleanup()
		return
	}
	if d, err := hw.done(); d {
		k.Fail("C11.wire_messages", map[string]string{"last_len": "n/a"}, "e2e: Config.Proxy returned during the exchange: %v", err)
		hw.cleanup()
		return
	}
	check := func(dir string, c *c11Case, snd, rcv *H2End, rec *recProc) {
		if snd.next < len(snd.Script) {
			return // the sender could not finish its script (window never opened): nothing to compare
		}
		desc := fmt.Sprintf("e2e %s %v", dir, c)
		var data []byte
		ends, endLast := 0, false
		evs := streamEvents(rcv.Recv, 1)
		for i, e := range evs {
			if e.Kind == "data" {
				data = append(data, e.Data...)
			}
			if e.End {
				ends++
				endLast = i == len(evs)-1
			}
		}
		lastLen := "none"
		if m := len(c.msgs); m > 0 {
			lastLen = "nonzero"
			if len(c.msgs[m-1].Payload) == 0 {
				lastLen = "zero"
			}
		}
		wire, err := grpcParseStream(c.enc, data)
		if err != nil {
			k.Fail("C11.wire_format", map[string]string{"encoding": encName(c.enc)}, "%s: bytes received by the %s are not the gRPC wire format in the stream's encoding: %v", desc, rcv.Name, err)
			return
		}
		same := len(wire) == len(c.msgs)
		if same {
			for i := range wire {
				if wire[i].Compressed != c.msgs[i].Compressed || !bytes.Equal(wire[i].Payload, c.msgs[i].Payload) {
					same = false
				}
			}
		}
		if !same {
			k.Fail("C11.wire_messages", map[string]string{"last_len": lastLen}, "%s: %s received %d messages, %d were sent", desc, rcv.Name, len(wire), len(c.msgs))
		}
		if ends != 1 || !endLast {
			k.Fail("C11.end_stream_after_last", map[string]string{"last_len": lastLen, "placement": c.placement}, "%s: %s saw END_STREAM %d times (as the last event: %v)", desc, rcv.Name, ends, endLast)
		}
		if rec != nil {
			n := 0
			for _, call := range rec.calls {
				if !(len(call.data) == 0 && call.end && n == len(c.msgs)) {
					if n < len(c.msgs) && bytes.Equal(call.data, c.msgs[n].Payload) {
						n++
						continue
					}
					k.Fail("C11.messages_seen", map[string]string{"last_len": lastLen}, "%s: processor call %d carried %d bytes, not message %d", desc, n+1, len(call.data), n+1)
					return
				}
			}
			if n != len(c.msgs) {
				k.Fail("C11.messages_seen", map[string]string{"last_len": lastLen}, "%s: processor was shown %d of %d messages", desc, n, len(c.msgs))
			}
		}
	}
	var rc, rs *recProc
	if len(all) > 0 {
		rc, rs = all[0].c, all[0].s
	}
	check("request", reqC, cl, sv, rc)
	check("response", respC, sv, cl, rs)
	k.Probe("e2e_exchange")
	hw.cleanup()
}
