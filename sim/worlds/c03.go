package worlds

import (
	"fmt"
	"net/http"
	"net/url"
	"strings"
	"time"

	"verifsim/kernel"
	"verifsim/simnet"
	"verifsim/wire"

	"github.com/google/martian/v3"
	"github.com/google/martian/v3/har"
)

// C03 — upstream failures become 502s or clean closes, never a crash, hang or desync.
//
// One proxy per run; a sequence of sub-scenarios, each on its own client connection:
// a faulted exchange followed by a well-formed follow-up request (pipelined or not).
// Class "enum": one drawn response shape, cut at EVERY byte offset k in 0..len (one
// sub-scenario per k). Class "random": drawn faults of every kind, larger bodies.

func init() {
	register(&World{
		Name: "C03", Prop: "C03", Run: runC03, MaxSteps: 200000,
		Real: []string{"martian.Proxy (Serve, handleLoop, handle, roundTrip, 502 synthesis)", "net/http.Transport (dial, persistConn, retry)", "proxyutil"},
		Stub: append([]string{"raw scripted clients", "raw scripted origins (cut at byte k, garbage, refuse, dial timeout)", "harness response modifier (stamp)"}, commonStub...),
	})
}

type c03Fault struct {
	Kind string // none | cut | garbage | refuse | dialtimeout | abort
	K    int    // cut offset
}

type c03Sub struct {
	idx           int
	fault         c03Fault
	faultID       int
	followID      int
	reqs          map[int]*ReqSpec
	resps         map[int]*RespSpec
	client        *Client
	region        string
	pipelined     bool
	viaDownstream bool // the faulted exchange is a CONNECT refused by the downstream proxy
}

// c02IDFromHost extracts N from "xN.<domain>:port".
func c02IDFromHost(h string) int {
	if strings.HasPrefix(h, "x") {
		if i := strings.IndexByte(h, '.'); i > 1 {
			id := 0
			fmt.Sscanf(h[1:i], "%d", &id)
			return id
		}
	}
	return -1
}

func runC03(k *kernel.K) {
	n := simnet.New(k)
	n.DefaultPolicy = simnet.ChunkPolicy(k.W.Pick([]int{5, 2, 1, 1, 0, 2}))
	n.TCPLikeConns = k.W.Chance(1, 2)
	n.ResetOnCloseWithUnread = n.TCPLikeConns && k.W.Chance(1, 2) // close(2) with unread input resets a TCP connection
	if n.ResetOnCloseWithUnread {
		k.Probe("network_resets_on_close_with_unread_input")
	}
	proxy, l := newProxyA(k, n)
	stamp := 0
	// A quarter of the runs log every exchange with a har.Logger (which reads each body to its end
	// before the proxy forwards it): whatever the origin does must come out the same way.
	var hl *har.Logger
	if k.W.Chance(1, 4) {
		k.Probe("har_logger_installed")
		hl = har.NewLogger()
		proxy.SetRequestModifier(hl)
	}
	proxy.SetResponseModifier(martian.ResponseModifierFunc(func(res *http.Response) error {
		if hl != nil {
			hl.ModifyResponse(res)
		}
		stamp++
		res.Header.Set("X-Resmod", fmt.Sprint(stamp))
		// The property wants the Warning header to have passed through the response modifier:
		// the modifier notes whether it saw one.
		if res.Header.Get("Warning") != "" {
			res.Header.Set("X-Resmod-Saw-Warning", "1")
		}
		return nil
	}))

	// All plans, keyed by exchange id.
	faults := map[int]c03Fault{}
	resps := map[int]*RespSpec{}
	attempts := map[int]int{}
	plan := func(oc *OConn, req *wire.Msg) *Reply {
		id := exchangeID(req.Target)
		attempts[id]++
		rs := resps[id]
		if rs == nil {
			return &Reply{Raw: []byte("HTTP/1.1 500 Unplanned\r\nContent-Length: 0\r\n\r\n")}
		}
		raw := rs.Encode(req.Method)
		f := faults[id]
		if attempts[id] > 1 {
			f = c03Fault{Kind: "none"}
		}
		switch f.Kind {
		case "cut":
			k.FaultFired("origin_close_at_offset")
			kk := f.K
			if kk > len(raw) {
				kk = len(raw)
			}
			return &Reply{Raw: raw[:kk], CloseAfter: true}
		case "abort":
			k.FaultFired("origin_reset_at_offset")
			kk := f.K
			if kk > len(raw) {
				kk = len(raw)
			}
			return &Reply{Raw: raw[:kk], Abort: true}
		case "garbage":
			k.FaultFired("origin_garbage")
			g := k.W.Bytes(k.W.Range(1, 300))
			if len(g) >= 5 && string(g[:5]) == "HTTP/" {
				g[0] = 'X'
			}
			return &Reply{Raw: g, CloseAfter: true}
		}
		return &Reply{Raw: raw, CloseAfter: rs.Close || rs.Framing == "close", Spec: rs}
	}
	origins := []string{"origin-a.test:80", "origin-b.test:8081"}
	var os []*Origin
	for _, a := range origins {
		os = append(os, NewOrigin(k, n, a, plan))
	}
	// refuse.test has no handler: dials are refused. timeout.test: dials hang, then time out.
	n.TimeoutAddrs = map[string]bool{"timeout.test:80": true, "timeout.test:443": true}
	k.AddSource(func(add func(kernel.Action)) {
		if n.SleepingDials() > 0 {
			add(kernel.Action{Key: "advance past dial timeout", W: 2, Class: kernel.Clock, Do: func() {
				k.FaultFired("dial_timeout")
				k.Advance(31 * time.Second)
			}})
		}
	})
	var clients []*Client
	k.StateFn = func() string {
		var sb strings.Builder
		sb.WriteString(n.Fingerprint())
		for _, c := range clients {
			if c.Alive() {
				sb.WriteString("|" + c.State())
			}
		}
		for _, o := range os {
			sb.WriteString("|" + o.State())
		}
		return sb.String()
	}

	class := "random"
	if k.W.Chance(1, 2) {
		class = "enum"
	}
	if k.W.Chance(1, 6) {
		// Every upstream contact goes through a downstream proxy, which refuses CONNECT requests
		// with an answer of its own, cut at every offset (the failing upstream of this class).
		class = "downstream"
		u, _ := url.Parse("http://dsproxy.test:3128")
		proxy.SetDownstreamProxy(u)
		os = append(os, NewOrigin(k, n, "dsproxy.test:3128", func(oc *OConn, req *wire.Msg) *Reply {
			if req.Method != "CONNECT" {
				return plan(oc, req) // forwarded in absolute form: answer as the origin would
			}
			id := c02IDFromHost(req.Target)
			attempts[id]++
			rs := resps[id]
			if rs == nil {
				return &Reply{Raw: []byte("HTTP/1.1 500 Unplanned\r\nContent-Length: 0\r\n\r\n")}
			}
			raw := rs.Encode("GET")
			f := faults[id]
			if f.Kind == "cut" {
				k.FaultFired("downstream_proxy_close_at_offset")
				kk := f.K
				if kk > len(raw) {
					kk = len(raw)
				}
				return &Reply{Raw: raw[:kk], CloseAfter: true}
			}
			return &Reply{Raw: raw, Spec: rs}
		}))
	}
	nextID := 1
	mkReq := func(host string, withBody bool) *ReqSpec {
		id := nextID
		nextID++
		r := &ReqSpec{ID: id, Method: "GET", Abs: true, Host: host, Path: fmt.Sprintf("/x%d/r", id)}
		if withBody {
			r.Method = "POST"
			r.Framing = "cl"
			r.Body = bodyBytes(id, 'q', k.W.Range(1, 600))
		}
		return r
	}
	mkResp := func(id int, maxBody int) *RespSpec {
		rs := &RespSpec{Status: []int{200, 200, 404, 500, 201}[k.W.Draw(5)], Framing: "cl"}
		if k.W.Chance(1, 2) {
			rs.Framing = "chunked"
			rs.Chunks = []int{k.W.Range(1, 64), k.W.Range(1, 300)}
		}
		rs.Body = bodyBytes(id, 'r', k.W.Range(0, maxBody))
		rs.Header = []wire.HF{{Name: "X-Origin-Id", Value: fmt.Sprint(id)}}
		return rs
	}

	var subs []*c03Sub
	addSub := func(f c03Fault, host string, maxBody int, shape *RespSpec) *c03Sub {
		s := &c03Sub{idx: len(subs), fault: f, reqs: map[int]*ReqSpec{}, resps: map[int]*RespSpec{}}
		fr := mkReq(host, k.W.Chance(1, 3))
		switch f.Kind {
		case "refuse":
			fr.Host = "refuse.test:80"
			k.FaultFired("dial_refused")
		case "dialtimeout":
			fr.Host = "timeout.test:80"
		case "connect_refuse", "connect_timeout":
			// A CONNECT whose target cannot be reached.
			host := "refuse.test:443"
			if f.Kind == "connect_timeout" {
				host = "timeout.test:443"
			} else {
				k.FaultFired("dial_refused")
			}
			*fr = ReqSpec{ID: fr.ID, Method: "CONNECT", Host: host, Path: host}
		}
		s.faultID = fr.ID
		s.reqs[fr.ID] = fr
		if shape != nil {
			cp := *shape
			cp.Body = bodyBytes(fr.ID, 'r', len(shape.Body))
			cp.Header = []wire.HF{{Name: "X-Origin-Id", Value: fmt.Sprint(fr.ID)}}
			resps[fr.ID] = &cp
		} else {
			resps[fr.ID] = mkResp(fr.ID, maxBody)
		}
		faults[fr.ID] = f
		fo := mkReq(origins[k.W.Draw(len(origins))], false)
		fo.Pipelined = k.W.Chance(1, 2)
		s.pipelined = fo.Pipelined
		s.followID = fo.ID
		s.reqs[fo.ID] = fo
		resps[fo.ID] = mkResp(fo.ID, 200)
		faults[fo.ID] = c03Fault{Kind: "none"}
		subs = append(subs, s)
		return s
	}

	if class == "downstream" {
		shape := &RespSpec{Status: []int{403, 407, 503}[k.W.Draw(3)], Framing: []string{"cl", "chunked"}[k.W.Draw(2)], Body: bodyBytes(0, 'r', k.W.Range(0, 60))}
		total := len(shape.Encode("GET")) + 4
		for kk := 0; kk <= total+1; kk++ {
			f := c03Fault{Kind: "cut", K: kk}
			if kk == total+1 {
				f = c03Fault{Kind: "none"}
			}
			s := addSub(f, origins[0], 0, shape)
			fr := s.reqs[s.faultID]
			host := fmt.Sprintf("x%d.tunnel.test:443", fr.ID)
			*fr = ReqSpec{ID: fr.ID, Method: "CONNECT", Host: host, Path: host}
			s.viaDownstream = true
		}
		k.Note("class=downstream refusal=%d %s/%dB cuts=0..%d", shape.Status, shape.Framing, len(shape.Body), total)
	} else if class == "enum" {
		host := origins[k.W.Draw(len(origins))]
		shape := mkResp(0, 120)
		// The encoded length does not depend on the id (fixed-width ids in bodies and a
		// one-to-four digit header); compute with a representative id of the same width.
		total := len(shape.Encode("GET")) + 4
		for kk := 0; kk <= total; kk++ {
			addSub(c03Fault{Kind: "cut", K: kk}, host, 0, shape)
		}
		k.Note("class=enum shape=%s/%dB cuts=0..%d", shape.Framing, len(shape.Body), total)
	} else {
		nsub := k.W.Range(2, 10)
		for i := 0; i < nsub; i++ {
			kind := []string{"cut", "cut", "garbage", "refuse", "abort", "none", "dialtimeout", "connect_refuse", "connect_timeout"}[k.W.Draw(9)]
			f := c03Fault{Kind: kind}
			maxBody := []int{100, 2000, 70000}[k.W.Pick([]int{4, 3, 1})]
			s := addSub(f, origins[k.W.Draw(len(origins))], maxBody, nil)
			if kind == "cut" || kind == "abort" {
				raw := resps[s.faultID].Encode("GET")
				f.K = k.W.Draw(len(raw))
				faults[s.faultID] = f
				s.fault = f
			}
		}
		k.Note("class=random subs=%d", nsub)
	}

	for _, s := range subs {
		if k.Inconclusive != "" {
			break
		}
		c := NewClient(k, l, fmt.Sprintf("cl%d", s.idx), "10.1.0.2")
		s.client = c
		clients = append(clients, c)
		c.Add(s.reqs[s.faultID])
		c.Add(s.reqs[s.followID])
		k.RunUntil(func() bool { return c.Done() })
		k.Drain()
		c03Check(k, s, resps, attempts)
		c.CloseNow()
		k.Drain()
	}

	// Liveness of the proxy after everything: one clean exchange on a fresh connection.
	{
		c := NewClient(k, l, "final", "10.1.0.3")
		clients = append(clients, c)
		r := mkReq(origins[0], false)
		resps[r.ID] = mkResp(r.ID, 100)
		c.Add(r)
		k.RunUntil(func() bool { return c.Done() })
		k.Drain()
		fin := c.P.Final()
		if len(fin) != 1 || !respMatches(fin[0], resps[r.ID], "GET") {
			if k.Inconclusive == "" {
				k.Fail("C03.proxy_alive", nil, "clean exchange on a fresh connection after the fault sequence was not served: got %d responses, parser error %v", len(fin), c.P.Err)
			}
		}
		c.CloseNow()
	}
	n.Shutdown()
	k.Settle()
}

func respMatches(got *wire.Msg, want *RespSpec, method string) bool {
	if got == nil || !got.Complete || got.Status != want.Status {
		return false
	}
	if method == "HEAD" || want.Status == 204 || want.Status == 304 {
		return len(got.Body) == 0
	}
	return firstDiff(got.Body, want.Body) < 0
}

func c03Check(k *kernel.K, s *c03Sub, resps map[int]*RespSpec, attempts map[int]int) {
	if k.Inconclusive != "" {
		return
	}
	c := s.client
	fin := c.P.Final()
	fspec := resps[s.faultID]
	raw := fspec.Encode(s.reqs[s.faultID].Method)
	headLen := strings.Index(string(raw), "\r\n\r\n") + 4
	region := "none"
	mandatory502 := false
	switch s.fault.Kind {
	case "cut", "abort":
		switch {
		case s.fault.K >= len(raw):
			region = "complete"
		case s.fault.K < headLen:
			region = "head"
			mandatory502 = true
		default:
			region = "body"
		}
	case "garbage", "refuse", "dialtimeout", "connect_refuse", "connect_timeout":
		region = "head"
		mandatory502 = true
	}
	params := map[string]string{"fault": s.fault.Kind, "region": region}
	desc := fmt.Sprintf("sub %d fault=%+v region=%s framing=%s bodylen=%d pipelined=%v attempts=%d", s.idx, s.fault, region, fspec.Framing, len(fspec.Body), s.pipelined, attempts[s.faultID])

	if c.P.Err != nil {
		k.Fail("C03.outcome_class", params, "%s: client response stream is not well-formed HTTP: %v; raw tail %q", desc, c.P.Err, tail(c.P.Raw, 80))
		return
	}
	// Classify the first response.
	var first *wire.Msg
	firstComplete := false
	if len(fin) > 0 {
		first, firstComplete = fin[0], true
	} else if c.P.Cur != nil {
		first = c.P.Cur
	}
	followSpec := resps[s.followID]
	checkFollow := func(ctx string) {
		if len(fin) < 2 {
			k.Fail("C03.usable_after_502", params, "%s: follow-up request on the same connection was not answered after %s (responses=%d, eof=%v)", desc, ctx, len(fin), c.SawEOF)
			return
		}
		if !respMatches(fin[1], followSpec, "GET") {
			k.Fail("C03.usable_after_502", params, "%s: follow-up response after %s is wrong: status %d body %dB (want %d, %dB)", desc, ctx, fin[1].Status, len(fin[1].Body), followSpec.Status, len(followSpec.Body))
		}
	}
	switch {
	case first == nil:
		// Nothing at all: acceptable only as a clean close.
		if mandatory502 || region == "none" || region == "complete" {
			k.Fail("C03.outcome_class", params, "%s: client received no response (eof=%v rst=%v)", desc, c.SawEOF, c.SawRST)
		} else if !c.SawEOF && !c.SawRST {
			k.Fail("C03.incomplete_then_close", map[string]string{"framing": fspec.Framing}, "%s: no response bytes and connection left open at network quiescence", desc)
		}
	case firstComplete && first.Status == 502 && (region != "none" && region != "complete"):
		// (b) a 502: must be well-formed, carry Warning and the response-modifier stamp.
		k.Probe("outcome_502")
		if !first.Has("Warning") {
			k.Fail("C03.502_wellformed", map[string]string{"missing": "warning"}, "%s: 502 without Warning header", desc)
		}
		if !first.Has("X-Resmod") {
			k.Fail("C03.502_wellformed", map[string]string{"missing": "resmod"}, "%s: 502 did not pass through the response modifier", desc)
		} else if first.Has("Warning") && !first.Has("X-Resmod-Saw-Warning") {
			k.Fail("C03.502_wellformed", map[string]string{"missing": "warning_before_resmod"}, "%s: the 502's Warning header was added after the response modifier ran", desc)
		}
		if region == "body" {
			// Failure after a complete head: a 502 is not what the origin said, but the
			// property allows only "incomplete then close" here. A 502 here would mean the
			// proxy buffered the body — acceptable as a clean failure signal.
			k.Probe("502_after_head")
		}
		checkFollow("a 502")
	case firstComplete && respMatches(first, fspec, s.reqs[s.faultID].Method):
		// (a) complete and correct: fine when no fault applied, the cut lies at/after the end,
		// or the transport retried (origin saw the request again).
		if region == "head" || region == "body" {
			if attempts[s.faultID] < 2 {
				k.Fail("C03.outcome_class", params, "%s: client got a complete response although the origin sent only %d of %d bytes and was contacted once", desc, s.fault.K, len(raw))
			} else {
				k.Probe("outcome_retried")
			}
		}
		if s.fault.Kind == "none" || region == "complete" {
			k.Probe("outcome_clean")
		}
		checkFollow("a complete response")
	case firstComplete:
		// Complete but different from what the origin sent.
		if d := firstDiff(first.Body, fspec.Body); first.Status == fspec.Status && d >= 0 {
			fid := exchangeID(string(first.Body[min(d, len(first.Body)):]))
			_ = fid
			k.Fail("C03.no_crosstalk", nil, "%s: response body diverges from the origin's at offset %d: got %s want %s", desc, d, excerpt(first.Body, d), excerpt(fspec.Body, d))
		} else {
			k.Fail("C03.outcome_class", params, "%s: complete response with status %d is neither the origin's (%d) nor a 502", desc, first.Status, fspec.Status)
		}
	default:
		// (c) incomplete response: must be a prefix of the origin's and be followed by close.
		k.Probe("outcome_incomplete")
		if mandatory502 {
			k.Fail("C03.outcome_class", params, "%s: failure before a complete response head must yield a 502, client got an incomplete response (head done=%v)", desc, first.HeadDone)
		}
		if first.HeadDone {
			if d := firstDiff(first.Body, fspec.Body[:min(len(first.Body), len(fspec.Body))]); d >= 0 {
				k.Fail("C03.no_crosstalk", nil, "%s: incomplete response body is not a prefix of the origin's: offset %d got %s want %s", desc, d, excerpt(first.Body, d), excerpt(fspec.Body, d))
			}
			if len(first.Body) > len(fspec.Body) {
				k.Fail("C03.no_crosstalk", nil, "%s: incomplete response carries %d body bytes, origin body has %d: extra %s", desc, len(first.Body), len(fspec.Body), excerpt(first.Body, len(fspec.Body)))
			}
		}
		if !c.SawEOF && !c.SawRST {
			k.Fail("C03.incomplete_then_close", map[string]string{"framing": fspec.Framing}, "%s: incomplete response (%d of %d body bytes) but the connection is still open at network quiescence", desc, len(first.Body), len(fspec.Body))
		}
		if len(fin) > 0 {
			k.Fail("C03.no_crosstalk", nil, "%s: a later response was delivered on a connection whose previous response was incomplete", desc)
		}
	}
	// Whatever happened: bodies of every complete response must not contain foreign ids.
	for i, m := range fin {
		want := s.faultID
		if i == 1 {
			want = s.followID
		}
		if m.Status == 502 {
			continue
		}
		if id, ok := foreignID(m.Body, want); ok {
			k.Fail("C03.no_crosstalk", nil, "%s: response %d contains body bytes of exchange %d", desc, i, id)
		}
	}
	if first != nil && !firstComplete {
		if id, ok := foreignID(first.Body, s.faultID); ok {
			k.Fail("C03.no_crosstalk", nil, "%s: incomplete response contains body bytes of exchange %d", desc, id)
		}
	}
}

// foreignID scans a body made of "[<side><id>@<off>]" blocks for an id other than want.
func foreignID(b []byte, want int) (int, bool) {
	s := string(b)
	for i := 0; i+16 <= len(s); {
		j := strings.Index(s[i:], "[r")
		if j < 0 {
			break
		}
		i += j
		if i+7 > len(s) {
			break
		}
		var id int
		if _, err := fmt.Sscanf(s[i+2:i+6], "%04d", &id); err == nil && s[i+6] == '@' && id != want%10000 {
			return id, true
		}
		i += 2
	}
	return 0, false
}

func tail(b []byte, n int) string {
	if len(b) > n {
		b = b[len(b)-n:]
	}
	return string(b)
}
