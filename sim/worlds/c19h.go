package worlds

import (
	"bytes"
	"fmt"
	"io"
	"net/http"
	"net/url"
	"strings"
	"sync"

	"verifsim/kernel"
	"verifsim/simnet"

	"github.com/google/martian/v3"
	"github.com/google/martian/v3/marbl"
	"golang.org/x/net/websocket"
)

// C19H — C19 at a websocket subscriber of marbl.Handler, the transport martian ships for marbl
// streams: a subscriber that falls behind may be cut off (its 16384-frame buffer is full), but
// what it did receive must be the stream's frames in order with none missing in between - "data
// frames with contiguous indices from zero whose concatenation equals the body bytes".
//
// One producer logs a response whose body is read a byte at a time (one data frame per read)
// through a real Stream into a real Handler, served by net/http over the simulated network; the
// subscriber is a real x/net/websocket client that reads in tape-chosen batches, so that the
// network backs up, the handler's buffer fills and frames are dropped. The schedule tape decides,
// frame by frame near the overflow, who runs next: the producer, the subscriber, or a goroutine
// parked before a write-lock acquisition of handler.go (seam R8; that is where the handler ends a
// subscription).

func init() {
	register(&World{
		Name: "C19H", Prop: "C19", Run: runC19H, MaxSteps: 20000,
		Real: []string{"marbl.Stream, marbl.Handler (Write, streamLogs, subscribe/unsubscribe)", "net/http server and golang.org/x/net/websocket on both ends"},
		Stub: append([]string{"simulated TCP between handler and subscriber with a small window", "lock-acquisition yield points in marbl/handler.go (seam R8)", "independent frame parser"}, commonStub...),
	})
}

type c19Tee struct {
	mu     sync.Mutex
	frames [][]byte
	next   io.Writer
}

func (t *c19Tee) Write(p []byte) (int, error) {
	t.mu.Lock()
	t.frames = append(t.frames, append([]byte(nil), p...))
	t.mu.Unlock()
	return t.next.Write(p)
}

func runC19H(k *kernel.K) {
	w := k.W
	n := simnet.New(k)
	n.DefaultAuto = true
	n.DefaultCap = []int{512, 1024, 4096}[w.Draw(3)]
	n.LogSystemOps = false
	h := marbl.NewHandler()
	l := n.Listen("10.0.0.9:80")
	srv := &http.Server{Handler: h}
	go srv.Serve(l)
	k.AddSource(k.GateSource)
	armed := false
	marbl.VerifYieldHook = func(site string) {
		if armed && !k.Draining && strings.HasPrefix(site, "lock:") {
			k.Probe("parked_before_write_lock")
			k.Park("handler " + site)
		}
	}
	defer func() { marbl.VerifYieldHook = nil }()
	k.Settle()

	// the subscriber
	var smu sync.Mutex
	var received [][]byte
	ready, subDone, drain := false, false, false
	subErr := ""
	batches := []int{1, 3, 20, 200}
	go func() {
		defer func() { smu.Lock(); subDone = true; smu.Unlock() }()
		conn, err := n.DialFunc("subscriber")("tcp", "10.0.0.9:80")
		if err != nil {
			subErr = err.Error()
			return
		}
		defer conn.Close()
		cfg, _ := websocket.NewConfig("ws://10.0.0.9/", "http://10.0.0.9/")
		ws, err := websocket.NewClient(cfg, conn)
		if err != nil {
			subErr = err.Error()
			return
		}
		smu.Lock()
		ready = true
		smu.Unlock()
		for i := 0; ; i++ {
			smu.Lock()
			d := drain
			smu.Unlock()
			batch := 1 << 30
			if !d {
				k.Park(fmt.Sprintf("subscriber reads#%04d", i))
				batch = batches[k.S.Draw(len(batches))]
			}
			for j := 0; j < batch; j++ {
				var b []byte
				if err := websocket.Message.Receive(ws, &b); err != nil {
					return
				}
				smu.Lock()
				received = append(received, b)
				smu.Unlock()
			}
		}
	}()
	for guard := 0; guard < 200; guard++ {
		k.Settle()
		smu.Lock()
		r, d := ready, subDone
		smu.Unlock()
		if r || d {
			break
		}
		if !k.Step() {
			break
		}
	}
	k.Settle() // the handler's side of the handshake: streamLogs subscribes
	if subErr != "" || !ready {
		k.Inconclusive = "subscriber_setup"
		k.Note("subscriber setup failed: %q", subErr)
		k.ReleaseAll()
		n.Shutdown()
		k.Settle()
		return
	}
	armed = true

	// the producer: one response, body read a byte at a time
	tee := &c19Tee{next: h}
	stream := marbl.NewStream(tee)
	const buffer = 16384 // frames the handler buffers per subscriber
	gateFrom := buffer + w.Draw(40)
	total := buffer + 60 + w.Draw(120)
	body := bodyBytes(1, 'h', total)
	prodDone := false
	go func() {
		u, _ := url.Parse("http://origin.test/h")
		req := &http.Request{Method: "GET", URL: u, Proto: "HTTP/1.1", ProtoMajor: 1, ProtoMinor: 1, Host: "origin.test", Header: http.Header{}}
		_, remove, _ := martian.TestContext(req, nil, nil)
		defer remove()
		res := &http.Response{Request: req, StatusCode: 200, Status: "200 OK", Proto: "HTTP/1.1", ProtoMajor: 1, ProtoMinor: 1, Header: http.Header{"X-A": {"1"}}, Body: io.NopCloser(bytes.NewReader(body)), ContentLength: int64(len(body))}
		stream.LogResponse("h0000001", res)
		buf := make([]byte, 1)
		for i := 0; ; i++ {
			if i >= gateFrom {
				k.Park(fmt.Sprintf("producer read#%05d", i))
			}
			if _, err := res.Body.Read(buf); err != nil {
				break
			}
		}
		smu.Lock()
		prodDone = true
		smu.Unlock()
	}()
	for k.Step() {
		smu.Lock()
		d := prodDone
		smu.Unlock()
		if d {
			break
		}
	}
	// the rest: everybody runs to the end
	smu.Lock()
	drain = true
	smu.Unlock()
	armed = false
	for k.Step() {
	}
	k.Settle()
	stream.Close()
	k.Settle()
	srv.Close()
	k.Settle()
	for k.Step() {
	}
	k.Settle()

	// ---- oracle ----
	tee.mu.Lock()
	written := tee.frames
	tee.mu.Unlock()
	smu.Lock()
	got := received
	fin := subDone
	smu.Unlock()
	k.Note("frames written %d, received by the subscriber %d, subscriber finished %v", len(written), len(got), fin)
	if len(got) < len(written) {
		k.Probe("subscriber_cut_off")
	}
	for i, b := range got {
		if i >= len(written) || !bytes.Equal(b, written[i]) {
			// locate the received frame in the stream to describe the gap
			at := -1
			for j := i; j < len(written) && j < i+400; j++ {
				if bytes.Equal(b, written[j]) {
					at = j
					break
				}
			}
			var gf, wf string
			if fs, err := parseMarbl(b); err == nil && len(fs) == 1 {
				gf = fmt.Sprintf("kind=%d index=%d", fs[0].Kind, fs[0].Index)
			}
			if i < len(written) {
				if fs, err := parseMarbl(written[i]); err == nil && len(fs) == 1 {
					wf = fmt.Sprintf("kind=%d index=%d", fs[0].Kind, fs[0].Index)
				}
			}
			k.Fail("C19.subscriber_prefix", map[string]string{"gap": fmt.Sprint(at > i)}, "the websocket subscriber received %d of the %d frames written to the handler; the %dth it received (%s) is not the %dth of the stream (%s) but the %dth (-1: none nearby): frames are missing from the middle of what it was sent, not only from the end", len(got), len(written), i, gf, i, wf, at)
			break
		}
	}
	n.Shutdown()
	k.Settle()
}
