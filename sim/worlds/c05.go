package worlds

import (
	"crypto/tls"
	"crypto/x509"
	"fmt"
	"net"
	"net/http"
	"strings"
	"sync"

	"verifsim/kernel"
	"verifsim/simnet"
	"verifsim/wire"

	"github.com/google/martian/v3"
	"github.com/google/martian/v3/trafficshape"
)

// C05 — MITM never downgrades and treats every tunnelled request as secure.

func init() {
	register(&World{
		Name: "C05", Prop: "C05", Run: runC05, MaxSteps: 40000, WarmCrypto: true,
		Real: []string{"martian.Proxy MITM branch (sniff, tls.Server handshake, recursive handle)", "mitm.Config (TLSForHost, TLS, cert forging)", "crypto/tls on both legs", "net/http.Transport (TLS upstream)", "trafficshape.Listener/Conn wrapper (shaped-listener class)"},
		Stub: append([]string{"CONNECT+TLS client actor (real crypto/tls over simnet)", "TLS origin actor and cleartext raw origin on the same name", "recording/hijacking harness modifiers", "harness CA (ECDSA)"}, commonStub...),
	})
}

type c05Rec struct {
	id         int
	method     string
	scheme     string
	host       string
	secure     bool
	hasTLS     bool
	hsDone     bool
	sess       *martian.Session
	hijackOK   bool
	hijackRead string
}

func runC05(k *kernel.K) {
	w := k.W
	n := simnet.New(k)
	n.DefaultPolicy = simnet.ChunkPolicy(w.Pick([]int{5, 3, 1, 1, 0, 2}))
	n.TCPLikeConns = w.Chance(1, 2)
	n.ResetOnCloseWithUnread = n.TCPLikeConns && w.Chance(1, 2) // close(2) with unread input resets a TCP connection
	if n.ResetOnCloseWithUnread {
		k.Probe("network_resets_on_close_with_unread_input")
	}
	env := newTLSEnv()
	mc := env.mitmConfig()

	// Target spelling.
	type tgt struct{ host, authority, secureAddr, plainAddr string }
	tg := []tgt{
		{"secure.test", "secure.test:443", "secure.test:443", "secure.test:80"},
		{"10.7.7.7", "10.7.7.7:443", "10.7.7.7:443", "10.7.7.7:80"},
		{"fd00::7", "[fd00::7]:443", "[fd00::7]:443", "[fd00::7]:80"},
		{"secure.test", "secure.test:8443", "secure.test:8443", "secure.test:80"},
	}[w.Pick([]int{5, 2, 1, 2})]
	listenerKind := []string{"plain", "shaped", "transparent"}[w.Pick([]int{4, 2, 2})]
	if listenerKind == "transparent" {
		// No CONNECT, hence no fallback host: the client must name the host through SNI.
		tg = tgt{"secure.test", "secure.test:443", "secure.test:443", "secure.test:80"}
	}
	inner := "tls"
	if listenerKind != "transparent" && w.Chance(1, 6) && strings.HasSuffix(tg.authority, ":443") {
		// (with another port the named host:port is the TLS origin's; no cleartext twin exists there)
		inner = "plain_http"
	}
	sni := true
	if net.ParseIP(tg.host) != nil || (listenerKind != "transparent" && w.Chance(1, 4)) {
		sni = false // Go sends no SNI for IP literals; for DNS names we drop it on purpose
	}

	proxy := martian.NewProxy()
	proxy.SetDial(n.DialFunc("proxy"))
	proxy.SetMITM(mc)
	proxy.GetRoundTripper().(*http.Transport).TLSClientConfig = &tls.Config{RootCAs: env.pool}
	base := n.Listen("10.0.0.1:8080")
	var l net.Listener = base
	switch listenerKind {
	case "shaped":
		l = trafficshape.NewListener(base)
	case "transparent":
		l = tls.NewListener(base, mc.TLS())
	}
	go proxy.Serve(l)

	var mu sync.Mutex
	var recs []*c05Rec
	rewriteConnectURL := w.Chance(1, 4)
	if rewriteConnectURL {
		k.Probe("modifier_rewrites_connect_url")
	}
	hijackID := -1
	proxy.SetRequestModifier(martian.RequestModifierFunc(func(req *http.Request) error {
		ctx := martian.NewContext(req)
		r := &c05Rec{id: -1, method: req.Method, scheme: req.URL.Scheme, host: req.URL.Host, hasTLS: req.TLS != nil}
		if req.Method != "CONNECT" {
			r.id = exchangeID(req.URL.Path)
		} else if rewriteConnectURL {
			// what martianurl.Modifier does: the URL is pointed elsewhere, the Host field stays.
			// Nothing is dialled for a MITM'd CONNECT, so this must not change anything: the
			// certificate is for the authority the client named, and so is the tunnel's host.
			req.URL.Host = "rewritten.test:443"
		}
		if req.TLS != nil {
			r.hsDone = req.TLS.HandshakeComplete
		}
		if ctx != nil {
			r.sess = ctx.Session()
			r.secure = r.sess.IsSecure()
		}
		mu.Lock()
		recs = append(recs, r)
		mu.Unlock()
		if r.id == hijackID && r.id >= 0 && ctx != nil {
			conn, _, err := ctx.Session().Hijack()
			if err == nil {
				// Talk to the client through the connection handed out by Hijack.
				conn.Write([]byte(fmt.Sprintf("HTTP/1.1 599 Hijacked\r\nContent-Length: 8\r\nX-Hijack: %d\r\n\r\nHIJACKED", r.id)))
				buf := make([]byte, 5)
				nr := 0
				for nr < 5 {
					m, err := conn.Read(buf[nr:])
					nr += m
					if err != nil {
						break
					}
				}
				mu.Lock()
				r.hijackOK = true
				r.hijackRead = string(buf[:nr])
				mu.Unlock()
			}
		}
		return nil
	}))

	// Origins on the same name: TLS on :443, cleartext on :80.
	specs := map[int]*RespSpec{}
	tlsOrigin := NewTLSOrigin(k, n, env, tg.secureAddr, []string{tg.host}, func(req *wire.Msg) []byte {
		id := exchangeID(req.Target)
		rs := specs[id]
		if rs == nil {
			return []byte("HTTP/1.1 500 Unplanned\r\nContent-Length: 0\r\n\r\n")
		}
		return rs.Encode(req.Method)
	})
	plain := NewOrigin(k, n, tg.plainAddr, func(oc *OConn, req *wire.Msg) *Reply {
		id := exchangeID(req.Target)
		rs := specs[id]
		if rs == nil {
			return &Reply{Raw: []byte("HTTP/1.1 500 Unplanned\r\nContent-Length: 0\r\n\r\n")}
		}
		cp := *rs
		cp.Header = append(append([]wire.HF(nil), rs.Header...), wire.HF{Name: "X-Cleartext-Origin", Value: "1"})
		return &Reply{Raw: cp.Encode(req.Method)}
	})

	// Client.
	ccfg := &tls.Config{RootCAs: env.pool, ServerName: tg.host}
	if !sni {
		host := tg.host
		ccfg = &tls.Config{InsecureSkipVerify: true, VerifyConnection: func(cs tls.ConnectionState) error {
			opts := x509.VerifyOptions{Roots: env.pool, DNSName: host, Intermediates: x509.NewCertPool()}
			for _, c := range cs.PeerCertificates[1:] {
				opts.Intermediates.AddCert(c)
			}
			_, err := cs.PeerCertificates[0].Verify(opts)
			return err
		}}
	}
	cl := NewTLSClient(k, base, "cl0", "10.1.0.2", ccfg)
	cl.NoTLS = inner == "plain_http"

	nreq := w.Range(1, 5)
	type creq struct {
		id   int
		form string
		spec *ReqSpec
		raw  []byte
		sent bool
	}
	var reqs []*creq
	forms := []string{"origin", "origin", "abs_https", "abs_http", "no_host"}
	if inner == "plain_http" {
		forms = []string{"origin", "abs_http"}
	}
	if listenerKind == "transparent" {
		forms = forms[:4] // no tunnel, so no tunnel authority to default to
	}
	for i := 0; i < nreq; i++ {
		id := i + 1
		form := forms[w.Draw(len(forms))]
		r := &ReqSpec{ID: id, Method: []string{"GET", "POST"}[w.Pick([]int{3, 1})], Host: tg.host, Path: fmt.Sprintf("/x%d/s", id)}
		if strings.Contains(tg.host, ":") {
			r.Host = "[" + tg.host + "]"
		}
		if _, port, _ := net.SplitHostPort(tg.authority); port != "443" {
			// a client names a non-default port wherever it names the host
			r.Host += ":" + port
		}
		switch form {
		case "abs_https":
			r.Abs, r.Scheme = true, "https"
		case "abs_http":
			r.Abs, r.Scheme = true, "http"
		case "no_host":
			r.NoHost, r.Proto = true, "HTTP/1.0"
		}
		if r.Method == "POST" {
			r.Framing = "cl"
			r.Body = bodyBytes(id, 'q', w.Range(1, 2000))
		}
		if form == "no_host" {
			// HTTP/1.0 closes after the response unless keep-alive is requested.
			r.Header = append(r.Header, wire.HF{Name: "Connection", Value: "keep-alive"})
		}
		specs[id] = &RespSpec{Status: 200, Framing: []string{"cl", "chunked"}[w.Draw(2)], Body: bodyBytes(id, 'r', w.Range(0, 3000))}
		if form == "no_host" {
			specs[id].Framing = "cl"
		}
		reqs = append(reqs, &creq{id: id, form: form, spec: r, raw: r.Encode()})
	}
	if inner == "tls" && w.Chance(1, 5) {
		hijackID = 1 + w.Draw(nreq)
		reqs = reqs[:hijackID] // the hijacked exchange is the last one
		h := reqs[hijackID-1]
		h.spec.Method, h.spec.Framing, h.spec.Body = "GET", "", nil
		h.raw = h.spec.Encode()
	}
	// Sometimes the origin ends the last exchange with Connection: close while the client has
	// already pipelined one more request behind it: the proxy closes the connection with that
	// request unread, which must not cost the last exchange its response.
	pipelinedTail := inner == "tls" && hijackID < 0 && len(reqs) > 0 && w.Chance(1, 4)
	if pipelinedTail {
		specs[reqs[len(reqs)-1].id].Close = true
		k.Probe("request_pipelined_behind_last_exchange")
	}
	k.Note("target=%s listener=%s inner=%s sni=%v requests=%d hijack=%d policy=%d", tg.authority, listenerKind, inner, sni, len(reqs), hijackID, n.DefaultPolicy)
	for _, r := range reqs {
		k.Note("  #%d %s %s %s", r.id, r.form, r.spec.Method, r.spec.Target())
	}

	// Sometimes the tunnel is opened inside another one: a CONNECT to a different authority first,
	// then - in the clear inside that tunnel - the CONNECT to the target. Whatever follows belongs to
	// the inner tunnel: its authority is the host of requests that name none.
	outer := listenerKind != "transparent" && w.Chance(1, 5)
	innerSent := false
	if listenerKind == "transparent" {
		cl.Start()
	} else if outer {
		k.Probe("tunnel_inside_another_tunnel")
		if w.Chance(2, 3) && inner != "plain_http" {
			// the outer tunnel carries TLS of its own (TLS inside TLS from the inner handshake on).
			// (Not with plain HTTP in the inner tunnel: those requests are both "decrypted from a
			// MITM'd tunnel" - the outer one - and "traffic in a tunnel that does not begin with a
			// TLS handshake"; the property does not say which clause wins, so the cell is not judged.)
			k.Probe("outer_tunnel_with_tls")
			cl.OuterCfg = &tls.Config{RootCAs: env.pool, ServerName: "outer.test"}
			cl.InnerConnect = tg.authority
			innerSent = true
		}
		cl.SendConnect("outer.test:443", "")
	} else {
		cl.SendConnect(tg.authority, "")
	}
	sentHijackExtra := false
	sentTail := false
	k.AddSource(func(add func(kernel.Action)) {
		if k.Draining {
			return
		}
		if !cl.started {
			if outer && !innerSent {
				if cl.Connected() {
					add(kernel.Action{Key: "client sends the inner CONNECT", W: 3, Class: kernel.Actor, Do: func() {
						innerSent = true
						cl.SendConnect(tg.authority, "")
					}})
				}
				return
			}
			if cl.Connected() {
				add(kernel.Action{Key: "client start inner protocol", W: 3, Class: kernel.Actor, Do: cl.Start})
			}
			return
		}
		fin, hsDone, hsErr, eof, _, _ := cl.Snapshot()
		if !hsDone || hsErr != nil || eof {
			return
		}
		next := -1
		for i, r := range reqs {
			if !r.sent {
				next = i
				break
			}
		}
		if next >= 0 && len(fin) >= next {
			r := reqs[next]
			add(kernel.Action{Key: fmt.Sprintf("client send #%d", r.id), W: 3, Class: kernel.Actor, Do: func() {
				r.sent = true
				cl.Send(r.spec.Method, r.raw)
			}})
		}
		if next < 0 && pipelinedTail && !sentTail && len(fin) < len(reqs) {
			// (a separate write, some time after the last request: the proxy is waiting for the
			// origin by then and leaves these bytes unread on the socket)
			add(kernel.Action{Key: "client pipelines one more request", W: 3, Class: kernel.Actor, Do: func() {
				sentTail = true
				cl.Send("", (&ReqSpec{ID: 99, Method: "GET", Host: tg.authority, Path: "/x99/extra"}).Encode())
			}})
		}
		if next < 0 && hijackID > 0 && !sentHijackExtra && len(fin) >= len(reqs) {
			add(kernel.Action{Key: "client sends bytes to the hijacker", W: 3, Class: kernel.Actor, Do: func() {
				sentHijackExtra = true
				cl.Send("", []byte("HELLO"))
			}})
		}
	})
	k.StateFn = func() string {
		fin, hs, _, eof, _, _ := cl.Snapshot()
		return fmt.Sprintf("%s|%d.%v.%v|%s", n.Fingerprint(), len(fin), hs, eof, plain.State())
	}
	k.RunUntil(func() bool {
		fin, _, hsErr, eof, _, _ := cl.Snapshot()
		if hsErr != nil || eof {
			return true
		}
		if hijackID > 0 && !sentHijackExtra {
			return false
		}
		return len(fin) >= len(reqs) && cl.started
	})
	k.Drain()
	if k.Inconclusive != "" {
		c05Cleanup(k, n, cl)
		return
	}

	// ---- oracle ----
	fin, hsDone, hsErr, _, perr, _ := cl.Snapshot()
	mu.Lock()
	hist := append([]*c05Rec(nil), recs...)
	mu.Unlock()
	if inner == "tls" && (!hsDone || hsErr != nil) {
		k.Fail("C05.response_in_tls", nil, "client TLS handshake inside the tunnel did not complete: done=%v err=%v (target %s, sni=%v, listener %s)", hsDone, hsErr, tg.authority, sni, listenerKind)
		c05Cleanup(k, n, cl)
		return
	}
	byID := map[int]*c05Rec{}
	var connectRec *c05Rec
	for _, r := range hist {
		if r.method == "CONNECT" {
			connectRec = r
		} else {
			byID[r.id] = r
		}
	}
	tlsReqs := map[int]*wire.Msg{}
	for _, m := range tlsOrigin.Requests() {
		tlsReqs[exchangeID(m.Target)] = m
	}
	plainReqs := map[int]*wire.Msg{}
	for _, m := range plain.Requests() {
		plainReqs[exchangeID(m.Target)] = m
	}
	for i, r := range reqs {
		if !r.sent {
			continue
		}
		idx := fmt.Sprint(i + 1)
		if i >= 2 {
			idx = "3+"
		}
		desc := fmt.Sprintf("request %d of the decrypted connection (#%d %s %s; target %s, listener %s, sni=%v)", i+1, r.id, r.form, r.spec.Target(), tg.authority, listenerKind, sni)
		rec := byID[r.id]
		if rec == nil {
			k.Fail("C05.response_in_tls", nil, "%s: never reached the request modifier", desc)
			continue
		}
		if connectRec != nil && rec.sess != connectRec.sess {
			k.Fail("C05.session_shared", nil, "%s: session differs from the CONNECT request's session", desc)
		}
		if inner == "plain_http" {
			k.Probe("plain_in_tunnel")
			if rec.scheme != "http" || rec.secure || rec.hasTLS {
				k.Fail("C05.plain_in_tunnel", nil, "%s (plain HTTP inside the tunnel): scheme=%s secure=%v tls=%v, want http on an insecure session", desc, rec.scheme, rec.secure, rec.hasTLS)
			}
			if plainReqs[r.id] == nil {
				k.Fail("C05.plain_in_tunnel", nil, "%s (plain HTTP inside the tunnel): request did not reach the cleartext origin", desc)
			}
			continue
		}
		if rec.scheme != "https" {
			k.Fail("C05.scheme", map[string]string{"index": idx, "target_form": r.form}, "%s: modifier saw scheme %q, want https", desc, rec.scheme)
		}
		if r.form == "no_host" {
			k.Probe("no_host_request")
			if !sameHost(rec.host, tg.authority) {
				k.Fail("C05.host_default", nil, "%s: request names no host; modifier saw URL host %q, want the tunnel authority %s", desc, rec.host, tg.authority)
			}
		}
		if !rec.secure {
			k.Fail("C05.secure", map[string]string{"index": idx}, "%s: session not marked secure", desc)
		}
		if !rec.hasTLS || !rec.hsDone {
			k.Fail("C05.tls_state", map[string]string{"index": idx, "listener": listenerKind}, "%s: req.TLS attached=%v handshakeComplete=%v", desc, rec.hasTLS, rec.hsDone)
		}
		if r.id == hijackID {
			k.Probe("hijack_after_upgrade")
			ok := i < len(fin) && fin[i].Status == 599 && fin[i].First("X-Hijack") == fmt.Sprint(r.id)
			if !rec.hijackOK || !ok || perr != nil {
				k.Fail("C05.hijack_decrypted", map[string]string{"phase": "write"}, "%s: bytes written by the hijacker to the connection it was handed did not arrive decrypted at the TLS client (hijack ok=%v, responses=%d, client parse error=%v)", desc, rec.hijackOK, len(fin), perr)
			} else if rec.hijackRead != "HELLO" {
				k.Fail("C05.hijack_decrypted", map[string]string{"phase": "read"}, "%s: hijacker read %q from the connection it was handed, the TLS client sent \"HELLO\"", desc, rec.hijackRead)
			}
			continue
		}
		if plainReqs[r.id] != nil {
			k.Fail("C05.upstream_tls", map[string]string{"target_form": r.form}, "%s: forwarded upstream in cleartext (reached the :80 origin)", desc)
		} else if tlsReqs[r.id] == nil && r.form != "no_host" {
			k.Fail("C05.upstream_tls", map[string]string{"target_form": r.form}, "%s: did not reach the TLS origin", desc)
		}
		if r.form == "no_host" && tlsReqs[r.id] == nil {
			continue // reported as host_default above if the host was wrong
		}
		if i >= len(fin) {
			k.Fail("C05.response_in_tls", nil, "%s: no response inside the TLS session (got %d responses, parse error %v)", desc, len(fin), perr)
		} else if !respMatches(fin[i], specs[r.id], r.spec.Method) || fin[i].Has("X-Cleartext-Origin") {
			k.Fail("C05.response_in_tls", nil, "%s: response inside the TLS session is not the TLS origin's (status %d, %d body bytes)", desc, fin[i].Status, len(fin[i].Body))
		}
	}
	if inner == "tls" && len(plain.Conns) > 0 && hijackID < 0 {
		k.Probe("cleartext_origin_contacted")
	}
	c05Cleanup(k, n, cl)
}

func sameHost(got, authority string) bool {
	if got == authority {
		return true
	}
	h, port, err := net.SplitHostPort(authority)
	// without a port the https default applies, which names the same endpoint only for :443
	return err == nil && port == "443" && (got == h || got == "["+h+"]")
}

func c05Cleanup(k *kernel.K, n *simnet.Net, cl *TLSClient) {
	cl.Close()
	k.Drain()
	n.Shutdown()
	k.Settle()
	if cl.started {
		close(cl.cmds)
	}
	k.Settle()
}
