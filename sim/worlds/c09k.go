package worlds

import (
	"fmt"
	"time"

	"verifsim/kernel"

	"golang.org/x/net/http2"
	"golang.org/x/net/http2/hpack"
)

// C09K — one cell of C09's close scenario that the general generator reaches too rarely: what the
// relay still owes the receiver when the sender closes is held back by the receiver's CONNECTION
// window only (its stream windows are wide open; it has not returned connection credit yet). The
// credit comes after the sender has left; every byte the relay had accepted must still arrive.

func init() {
	register(&World{
		Name: "C09K", Prop: "C09", Run: runC09K, MaxSteps: 4000,
		Real: []string{"h2.Config.Proxy, relay flow control and the drain phase after a side has ended"},
		Stub: append([]string{"scripted HTTP/2 endpoints with flow-control ledgers", "upstream dial (seam R1)"}, commonStub...),
	})
}

func runC09K(k *kernel.K) {
	if k.W.Chance(1, 2) {
		runC09KFrame(k)
		return
	}
	w := k.W
	hw := newH2World(k, nil)
	cl, sv := hw.cl, hw.sv
	snd, rcv := cl, sv
	upload := w.Chance(1, 2)
	if !upload {
		snd, rcv = sv, cl
	}
	rcv.NoAutoGrant, rcv.NeverGrant = true, true
	rcvSettings := []http2.Setting{{ID: http2.SettingInitialWindowSize, Val: 1 << 20}}
	cl.Script = []*H2Op{{Kind: "settings"}}
	sv.Script = []*H2Op{{Kind: "settings"}}
	rcv.Script = []*H2Op{{Kind: "settings", Settings: rcvSettings}}
	cl.Script = append(cl.Script, &H2Op{Kind: "headers", Stream: 1, End: !upload, Fields: []hpack.HeaderField{{Name: ":method", Value: "POST"}, {Name: ":scheme", Value: "https"}, {Name: ":authority", Value: "origin.test"}, {Name: ":path", Value: "/k"}}})
	if !upload {
		sv.Script = append(sv.Script, &H2Op{Kind: "headers", Stream: 1, NeedOpen: true, Fields: []hpack.HeaderField{{Name: ":status", Value: "200"}}})
	}
	total := 0
	for i, m := 0, 8+w.Draw(6); i < m; i++ {
		sz := []int{10000, 16384, 5000}[w.Draw(3)]
		snd.Script = append(snd.Script, &H2Op{Kind: "data", Stream: 1, Data: bodyBytes(1, 'k', total+sz)[total:], Pad: -1, NeedOpen: !upload, End: i == m-1})
		total += sz
	}
	k.StateFn = func() string {
		d, _ := hw.done()
		return fmt.Sprintf("%s|%d.%d|%d.%d|%v", hw.n.Fingerprint(), cl.next, len(cl.Recv), sv.next, len(sv.Recv), d)
	}
	cl.SendPreface()
	for k.Step() {
	}
	k.Drain()
	wr, _, rd := snd.C.Stats()
	if d, _ := hw.done(); d || snd.next < len(snd.Script) || wr != rd || total <= 65535 {
		// (the sender could not send everything, or nothing is left waiting for connection credit)
		k.Inconclusive = "setup_not_reached"
		hw.cleanup()
		return
	}
	k.Probe("queued_behind_connection_window_only")
	snd.Close()
	k.Drain()
	k.FastAdvance = true
	k.Advance(time.Duration(100+w.Draw(900)) * time.Millisecond)
	k.Drain()
	rcv.GrantExtra(0, 1<<24)
	k.Drain()
	k.Advance(time.Second)
	k.FastAdvance = false
	k.Drain()
	got := 0
	for _, e := range streamEvents(rcv.Recv, 1) {
		if e.Kind == "data" {
			got += len(e.Data)
		}
	}
	if got < total {
		k.Fail("C09.no_strand", map[string]string{"after": "sender_closed", "mode": "connection_window_only"}, "%s sent %d bytes on stream 1 (all read and credited by the relay) and closed; %s, whose stream window is 1 MiB, then returned connection credit: %d of %d bytes arrived (receiver saw end of connection: %v)", snd.Name, total, rcv.Name, got, total, rcv.EOF)
	}
	hw.cleanup()
}

// The second cell: a history of maximum frame sizes. The receiver raised SETTINGS_MAX_FRAME_SIZE,
// the sender used it, a large DATA frame waits in the relay for credit; the receiver lowers the
// maximum again and then grants part of the credit. Whatever the relay sends after the lowered value
// has been acknowledged must respect it, and windows stay exact.
func runC09KFrame(k *kernel.K) {
	w := k.W
	hw := newH2World(k, nil)
	cl, sv := hw.cl, hw.sv
	snd, rcv := cl, sv
	upload := w.Chance(1, 2)
	if !upload {
		snd, rcv = sv, cl
	}
	rcv.NoAutoGrant, rcv.NeverGrant = true, true
	for _, e := range []*H2End{cl, sv} {
		e := e
		e.OnWindow = func(what string, stream uint32, got, allowed int) {
			k.Fail("C09.window_"+what, nil, "%s received %d flow-controlled bytes on %s %d but has granted only %d (initial windows possibly in force %v)", e.Name, got, what, stream, allowed, e.advInit)
		}
		e.OnFrameSize = func(ev H2Ev, max int) {
			k.Fail("C09.max_frame", map[string]string{"changed_while_queued": "true"}, "%s received a %d-byte %s frame on stream %d; its maximum frame size in force is %d (%v): it had raised the maximum, lowered it again while data was waiting for credit, and the lowered value was acknowledged", e.Name, ev.FrameLen, ev.Kind, ev.Stream, max, e.advFrame)
		}
	}
	high := []uint32{40000, 60000, 1 << 20}[w.Draw(3)]
	cl.Script = []*H2Op{{Kind: "settings"}}
	sv.Script = []*H2Op{{Kind: "settings"}}
	rcv.Script = []*H2Op{{Kind: "settings", Settings: []http2.Setting{{ID: http2.SettingMaxFrameSize, Val: high}}}}
	k.StateFn = func() string {
		d, _ := hw.done()
		return fmt.Sprintf("%s|%d.%d|%d.%d|%v", hw.n.Fingerprint(), cl.next, len(cl.Recv), sv.next, len(sv.Recv), d)
	}
	cl.SendPreface()
	for k.Step() {
	}
	k.Drain()
	if snd.maxSendFrame() != int(high) {
		k.Inconclusive = "setup_not_reached"
		hw.cleanup()
		return
	}
	// the sender uses the raised maximum; the receiver grants nothing
	cl.Script = append(cl.Script, &H2Op{Kind: "headers", Stream: 1, End: !upload, Fields: []hpack.HeaderField{{Name: ":method", Value: "POST"}, {Name: ":scheme", Value: "https"}, {Name: ":authority", Value: "origin.test"}, {Name: ":path", Value: "/k"}}})
	if !upload {
		sv.Script = append(sv.Script, &H2Op{Kind: "headers", Stream: 1, NeedOpen: true, Fields: []hpack.HeaderField{{Name: ":status", Value: "200"}}})
	}
	total := 0
	for i := 0; i < 3; i++ {
		sz := []int{30000, 25000, 35000}[w.Draw(3)]
		snd.Script = append(snd.Script, &H2Op{Kind: "data", Stream: 1, Data: bodyBytes(1, 'f', total+sz)[total:], Pad: -1, NeedOpen: !upload, End: i == 2})
		total += sz
	}
	for k.Step() {
	}
	k.Drain()
	if d, _ := hw.done(); d || snd.next < len(snd.Script) {
		k.Inconclusive = "setup_not_reached"
		hw.cleanup()
		return
	}
	k.Probe("large_frame_queued_then_maximum_lowered")
	low := []uint32{16384, 16384, 20000}[w.Draw(3)]
	rcv.Do(&H2Op{Kind: "settings", Settings: []http2.Setting{{ID: http2.SettingMaxFrameSize, Val: low}}})
	for k.Step() {
	}
	k.Drain()
	// credit in parts: larger than the lowered maximum, smaller than what waits
	for round := 0; round < 6; round++ {
		g := []int{17000, 20000, 22000, 1 << 20}[w.Draw(4)]
		if round == 5 {
			g = 1 << 24
		}
		if w.Chance(1, 2) {
			rcv.GrantExtra(1, g)
			rcv.GrantExtra(0, g)
		} else {
			rcv.GrantExtra(0, g)
			rcv.GrantExtra(1, g)
		}
		for k.Step() {
		}
		k.Drain()
	}
	got := 0
	for _, e := range streamEvents(rcv.Recv, 1) {
		if e.Kind == "data" {
			got += len(e.Data)
		}
	}
	if got < total && !k.Failed() {
		k.Fail("C09.no_strand", map[string]string{"after": "credit_granted", "mode": "max_frame_history"}, "%s sent %d bytes on stream 1; %s granted credit for all of them in parts: %d bytes arrived", snd.Name, total, rcv.Name, got)
	}
	hw.cleanup()
}
