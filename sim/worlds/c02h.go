package worlds

import (
	"crypto/tls"
	"errors"
	"net"
	"net/http"
	"sync"

	"verifsim/kernel"
	"verifsim/simnet"

	"github.com/google/martian/v3"
	"github.com/google/martian/v3/h2"
	"golang.org/x/net/http2"
)

// C02H — the CONNECT exchange of a MITM'd connection whose tunnel then speaks HTTP/2 (the MITM
// configuration carries an h2.Config and the client offers ALPN "h2"): both modifiers run exactly
// once for the CONNECT, and once its 200 has been written - the exchange has ended - no context is
// retrievable for it any more while the HTTP/2 session inside the tunnel goes on, possibly for
// hours. (The requests inside an HTTP/2 tunnel are handled by h2.Config's stream processors, not by
// the proxy's modifiers: that is the design, not judged here.)

func init() {
	register(&World{
		Name: "C02H", Prop: "C02", Run: runC02H, MaxSteps: 4000, WarmCrypto: true,
		Real: []string{"martian.Proxy CONNECT + MITM branch that hands the decrypted connection to h2.Config.Proxy", "mitm.Config with an h2.Config, crypto/tls with ALPN", "h2 relay session (idle)"},
		Stub: append([]string{"CONNECT+TLS client actor offering ALPN h2", "passive HTTP/2 origin behind the dial seam (R1)"}, commonStub...),
	})
}

// C03H — the same set-up with an HTTP/2 origin that refuses the connection (C03: whatever an
// origin does, the client gets a 502 or a close, never a hang): the relay cannot be established,
// and the client, which has its 200 and a TLS session that negotiated h2, must at least see the
// connection end.
func init() {
	register(&World{
		Name: "C03H", Prop: "C03", Run: func(k *kernel.K) { runC02Hx(k, true) }, MaxSteps: 4000, WarmCrypto: true,
		Real: []string{"martian.Proxy CONNECT + MITM branch handing the decrypted connection to h2.Config.Proxy", "mitm.Config with an h2.Config, crypto/tls with ALPN"},
		Stub: append([]string{"CONNECT+TLS client actor offering ALPN h2", "dial seam (R1) refusing the upstream connection"}, commonStub...),
	})
}

func runC02H(k *kernel.K) { runC02Hx(k, false) }

func runC02Hx(k *kernel.K, refuse bool) {
	w := k.W
	n := simnet.New(k)
	n.DefaultPolicy = simnet.ChunkPolicy(w.Pick([]int{5, 3, 1, 1, 0, 2}))
	env := newTLSEnv()
	mc := env.mitmConfig()
	mc.SetH2Config(&h2.Config{AllowedHostsFilter: func(string) bool { return true }, RootCAs: env.pool})
	var origin *simnet.Conn
	dialAttempts := 0
	h2.VerifDial = func(network, addr string, cfg *tls.Config) (net.Conn, error) {
		dialAttempts++
		if refuse {
			return nil, &net.OpError{Op: "dial", Net: network, Err: errors.New("connection refused")}
		}
		a, b := n.Pair("relay.sc", "h2origin", "10.0.0.1:50001", simnet.Addr(addr))
		b.OnData(func([]byte) {}, func() {}, func() {})
		origin = b
		return n.Wrap(a), nil
	}
	defer func() { h2.VerifDial = nil }()
	proxy := martian.NewProxy()
	proxy.SetDial(n.DialFunc("proxy"))
	proxy.SetMITM(mc)
	base := n.Listen("10.0.0.1:8080")
	go proxy.Serve(base)
	liveBase := martian.VerifLiveContexts()
	var mu sync.Mutex
	var connectReq *http.Request
	ctxID := ""
	reqRuns, resRuns := 0, 0
	proxy.SetRequestModifier(martian.RequestModifierFunc(func(req *http.Request) error {
		mu.Lock()
		defer mu.Unlock()
		reqRuns++
		if req.Method == "CONNECT" {
			connectReq = req
			if ctx := martian.NewContext(req); ctx != nil {
				ctxID = ctx.ID()
			}
		}
		return nil
	}))
	proxy.SetResponseModifier(martian.ResponseModifierFunc(func(res *http.Response) error {
		mu.Lock()
		defer mu.Unlock()
		resRuns++
		return nil
	}))
	cl := NewTLSClient(k, base, "cl0", "10.1.0.2", &tls.Config{RootCAs: env.pool, ServerName: "secure.test", NextProtos: []string{"h2"}})
	cl.SendConnect("secure.test:443", "")
	wait := func(done func() bool) bool {
		for guard := 0; guard < 2000; guard++ {
			k.Settle()
			if done() {
				return true
			}
			if !k.Step() {
				return done()
			}
		}
		return done()
	}
	finish := func() {
		cl.Close()
		k.Drain()
		if origin != nil {
			origin.Close()
		}
		n.Shutdown()
		k.Settle()
		if cl.started {
			close(cl.cmds)
		}
		k.Settle()
	}
	if !wait(cl.Connected) {
		k.Inconclusive = "connect_not_answered"
		finish()
		return
	}
	cl.Start()
	wait(func() bool { _, hs, err, eof, _, _ := cl.Snapshot(); return hs || err != nil || eof })
	if _, hs, err, _, _, _ := cl.Snapshot(); !hs || err != nil {
		k.Inconclusive = "handshake_failed"
		k.Note("handshake: done=%v err=%v", hs, err)
		finish()
		return
	}
	cl.mu.Lock()
	proto := cl.State.NegotiatedProtocol
	cl.mu.Unlock()
	if proto != "h2" {
		k.Inconclusive = "alpn_not_h2"
		finish()
		return
	}
	k.Probe("h2_tunnel_established")
	// the HTTP/2 session starts: preface and an empty SETTINGS frame, then it idles
	cl.Send("", append([]byte(http2.ClientPreface), 0, 0, 0, 4, 0, 0, 0, 0, 0))
	wait(func() bool { return origin != nil || dialAttempts > 0 })
	k.Drain()
	if refuse {
		k.Probe("h2_origin_refuses_connection")
		cl.mu.Lock()
		eof := cl.EOF
		cl.mu.Unlock()
		if !eof {
			k.Fail("C03.outcome_class", map[string]string{"fault": "h2_dial_refused", "region": "connect"}, "the HTTP/2 origin refused the connection (the dial seam returned an error) after the client had its 200, a TLS session that negotiated h2 and had sent its preface: at network quiescence the client has neither an answer nor the end of its connection; martian goroutines: %s", kernel.FormatSummary(kernel.CensusSummary(k.Census(), "martian/v3.")))
		}
		finish()
		return
	}
	mu.Lock()
	cr, id, rq, rs := connectReq, ctxID, reqRuns, resRuns
	mu.Unlock()
	mode := map[string]string{"mode": "mitm_h2"}
	if rq != 1 {
		k.Fail("C02.reqmod_once", mode, "the request modifier ran %d times for a CONNECT whose tunnel then speaks HTTP/2", rq)
	}
	if rs != 1 {
		k.Fail("C02.resmod_once", map[string]string{"mode": "mitm_h2", "path": "connect"}, "the response modifier ran %d times for a CONNECT whose tunnel then speaks HTTP/2", rs)
	}
	if cr != nil && origin != nil {
		if ctx := martian.NewContext(cr); ctx != nil {
			k.Fail("C02.ctx_released", map[string]string{"mode": "mitm_h2", "when": "during_h2_session"}, "the CONNECT exchange ended when its 200 was written, yet while the HTTP/2 session inside its tunnel is running a context (ID %s, the modifier saw %s) is still retrievable for the CONNECT request", ctx.ID(), id)
		}
	}
	finish()
	if live := martian.VerifLiveContexts() - liveBase; live != 0 {
		k.Fail("C02.ctx_table_empty", mode, "%d request-to-context associations remain after the connection was closed and the network drained", live)
	}
}
