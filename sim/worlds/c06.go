package worlds

import (
	"crypto/tls"
	"crypto/x509"
	"fmt"
	"net"
	"strings"
	"sync"
	"time"

	"verifsim/kernel"
	"verifsim/simnet"

	"github.com/google/martian/v3/mitm"
)

// C06 — forged certificates verify for the requested host under the configured CA.

func init() {
	register(&World{
		Name: "C06", Prop: "C06", Run: runC06, MaxSteps: 20000, WarmCrypto: true,
		Real: []string{"mitm.NewAuthority / NewConfig / TLSForHost / TLS / cert (cache, re-verification, leaf template)", "crypto/tls server handshake driven by mitm's GetCertificate", "crypto/x509 inside mitm"},
		Stub: append([]string{"TLS client actors (real crypto/tls over simnet)", "simulated clock jumps between and during handshakes", "harness-side x509 verification at simulated time"}, commonStub...),
	})
}

type c06HS struct {
	idx      int
	spelling string
	org      string // the organization configured when the handshake started
	hostArg  string // what the proxy would pass to TLSForHost (CONNECT authority), "" if none
	sni      string // what the client puts into SNI, "" if none
	api      string // forhost | transparent
	expect   string // expected certified name (DNS name or IP literal), "" if the handshake must be refused
	pair     [2]*simnet.Conn

	mu        sync.Mutex
	started   bool
	cliDone   bool
	cliErr    error
	srvDone   bool
	srvErr    error
	certs     []*x509.Certificate
	startAt   time.Time
	endAt     time.Time
	jumped    time.Duration
	verifyErr error
}

func runC06(k *kernel.K) {
	w := k.W
	n := simnet.New(k)
	n.DefaultPolicy = simnet.ChunkPolicy(w.Pick([]int{4, 3, 2, 1, 0, 3}))
	validity := []time.Duration{time.Hour, 10 * time.Minute, 24 * time.Hour}[w.Pick([]int{3, 2, 1})]
	org := fmt.Sprintf("Org %d", w.Draw(1000))
	var mc *mitm.Config
	var pool *x509.CertPool
	caKind := "harness-ecdsa"
	if w.Chance(1, 4) {
		caKind = "NewAuthority-rsa"
		ca, priv, err := mitm.NewAuthority("martian.proxy", "Martian Authority", 24*time.Hour*3650)
		if err != nil {
			k.Inconclusive = "NewAuthority failed: " + err.Error()
			return
		}
		mc, err = mitm.NewConfig(ca, priv)
		if err != nil {
			k.Inconclusive = "NewConfig failed: " + err.Error()
			return
		}
		pool = x509.NewCertPool()
		pool.AddCert(ca)
	} else {
		env := newTLSEnv()
		mc = env.mitmConfig()
		pool = env.pool
	}
	mc.SetValidity(validity)
	mc.SetOrganization(org)
	// Concurrent issuance: in some runs every certificate issuance parks at the yield points inside
	// cert() (after the cache miss, before signing) and is released in tape order, so that several
	// handshakes are inside cert() at the same moment.
	k.AddSource(k.GateSource)
	parkCerts := w.Chance(1, 2)
	gateN := 0
	mitm.VerifYieldHook = func(site string) {
		if parkCerts {
			gateN++
			k.Probe("issuance_parked_" + site)
			k.Park(fmt.Sprintf("%s#%d", site, gateN))
		}
	}
	defer func() { mitm.VerifYieldHook = nil }()

	names := []string{"alpha.test", "beta.example.test", "x-1.y2.test"}
	type sp struct{ spelling, hostArg, sni, expect string }
	gen := func() sp {
		name := names[w.Draw(len(names))]
		mixed := strings.ToUpper(name[:1]) + name[1:3] + strings.ToUpper(name[3:4]) + name[4:]
		switch w.Pick([]int{4, 2, 2, 2, 2, 2, 2, 2, 1, 1, 1}) {
		case 0:
			return sp{"dns_sni", name + ":443", name, name}
		case 1:
			return sp{"dns_mixed_case_sni", mixed + ":443", mixed, name}
		case 2:
			return sp{"dns_hostport_no_sni", name + ":8443", "", name}
		case 3:
			return sp{"dns_bare_no_sni", name, "", name}
		case 4:
			return sp{"ipv4_port", "10.7.7.7:443", "", "10.7.7.7"}
		case 5:
			return sp{"ipv6_bracket_port", "[fd00::7]:443", "", "fd00::7"}
		case 6:
			return sp{"ipv6_bare", "fd00::9", "", "fd00::9"}
		case 7:
			return sp{"dns_sni_differs_from_authority", names[0] + ":443", names[1], names[1]}
		case 9:
			return sp{"ipv6_bracket_no_port", "[fd00::8]", "", "fd00::8"}
		case 10:
			return sp{"port_without_name", ":443", "", ""} // names no host: must be refused
		}
		return sp{"no_name_at_all", "", "", ""}
	}
	nhs := w.Range(1, 6)
	var hss []*c06HS
	for i := 0; i < nhs; i++ {
		s := gen()
		h := &c06HS{idx: i, spelling: s.spelling, hostArg: s.hostArg, sni: s.sni, expect: s.expect, api: "forhost"}
		if s.sni != "" && w.Chance(1, 4) {
			h.api = "transparent" // mc.TLS(): SNI is the only source of the name
		}
		if s.sni == "" && s.hostArg != "" && w.Chance(1, 8) {
			h.api = "transparent"
			h.expect = "" // no SNI and no fallback: must be refused
			h.spelling = "no_sni_transparent"
		}
		hss = append(hss, h)
		k.Note("hs%d %s api=%s TLSForHost(%q) sni=%q expect=%q", i, h.spelling, h.api, h.hostArg, h.sni, h.expect)
	}
	k.Note("validity=%v org=%q ca=%s policy=%d", validity, org, caKind, n.DefaultPolicy)
	hssAllInit := hss

	// the configured organization can change while the proxy runs (never while a handshake is in
	// flight here, so that which organization a handshake must see is unambiguous)
	orgChangeAt := -1
	if w.Chance(1, 4) {
		orgChangeAt = 1 + w.Draw(5)
	}
	hssAll := hssAllInit
	start := func(h *c06HS) {
		if h.idx == orgChangeAt {
			quiet := true
			for _, o := range hssAll {
				o.mu.Lock()
				if o.started && !(o.cliDone && o.srvDone) {
					quiet = false
				}
				o.mu.Unlock()
			}
			if quiet {
				org = org + " (renamed)"
				mc.SetOrganization(org)
				k.Probe("organization_changed_between_handshakes")
			}
		}
		h.org = org
		h.started = true
		h.startAt = time.Now()
		cli, srv := n.Pair(fmt.Sprintf("tlscli%d", h.idx), fmt.Sprintf("mitm%d", h.idx), simnet.Addr(fmt.Sprintf("10.1.0.2:%d", 50000+h.idx)), "10.0.0.1:8080")
		h.pair = [2]*simnet.Conn{cli, srv}
		var scfg *tls.Config
		if h.api == "transparent" {
			scfg = mc.TLS()
		} else {
			scfg = mc.TLSForHost(h.hostArg)
		}
		go func() {
			s := tls.Server(srv, scfg)
			err := s.Handshake()
			h.mu.Lock()
			h.srvDone, h.srvErr = true, err
			h.mu.Unlock()
			if err != nil {
				srv.Close()
			}
		}()
		go func() {
			ccfg := &tls.Config{ServerName: h.sni, InsecureSkipVerify: true, VerifyConnection: func(cs tls.ConnectionState) error {
				h.mu.Lock()
				h.certs = cs.PeerCertificates
				h.mu.Unlock()
				return nil
			}}
			c := tls.Client(cli, ccfg)
			err := c.Handshake()
			h.mu.Lock()
			h.cliDone, h.cliErr = true, err
			h.endAt = time.Now()
			h.mu.Unlock()
			if err != nil {
				cli.Close()
			}
		}()
	}
	inFlight := func() int {
		c := 0
		for _, h := range hss {
			h.mu.Lock()
			if h.started && !(h.cliDone && h.srvDone) {
				c++
			}
			h.mu.Unlock()
		}
		return c
	}
	var elapsed time.Duration
	// A handshake in flight sees the clock move by less than half the validity in total, so the
	// certificate issued at its start is still inside its window when the client verifies it.
	maxJumped := func() time.Duration {
		var m time.Duration
		for _, h := range hss {
			h.mu.Lock()
			if h.started && !(h.cliDone && h.srvDone) && h.jumped > m {
				m = h.jumped
			}
			h.mu.Unlock()
		}
		return m
	}
	k.AddSource(func(add func(kernel.Action)) {
		if k.Draining {
			return
		}
		for _, h := range hss {
			h := h
			if !h.started && inFlight() < 4 {
				add(kernel.Action{Key: fmt.Sprintf("start handshake %d", h.idx), W: 3, Class: kernel.Actor, Do: func() { start(h) }})
				break
			}
		}
		// clock jumps: large ones only between handshakes, small ones also during them
		if elapsed < 24*time.Hour*300 {
			if inFlight() == 0 {
				add(kernel.Action{Key: "clock jump between handshakes", W: 2, Class: kernel.Clock, Fault: "clock_jump_between_handshakes", Do: func() {
					d := []time.Duration{validity / 2, validity - time.Second, validity + time.Second, 2 * validity, 2*validity + time.Minute, 5 * validity, validity + validity/20, validity / 20}[k.S.Draw(8)]
					elapsed += d
					k.Advance(d)
				}})
			} else if maxJumped() < validity/4 {
				add(kernel.Action{Key: "clock jump during handshakes", W: 1, Class: kernel.Clock, Fault: "clock_jump_during_handshake", Do: func() {
					d := validity / time.Duration(8+k.S.Draw(8))
					elapsed += d
					for _, h := range hss {
						h.mu.Lock()
						if h.started && !(h.cliDone && h.srvDone) {
							h.jumped += d
						}
						h.mu.Unlock()
					}
					k.Advance(d)
				}})
			}
		}
	})
	k.StateFn = func() string {
		var sb strings.Builder
		sb.WriteString(n.Fingerprint())
		for _, h := range hss {
			h.mu.Lock()
			fmt.Fprintf(&sb, "|%v%v%v", h.started, h.cliDone, h.srvDone)
			h.mu.Unlock()
		}
		return sb.String()
	}
	issued := map[string][]*x509.Certificate{}
	checked := map[int]bool{}
	checkDone := func() {
		for _, h := range hss {
			h.mu.Lock()
			done := h.started && h.cliDone && h.srvDone
			h.mu.Unlock()
			if !done || checked[h.idx] {
				continue
			}
			checked[h.idx] = true
			c06Check(k, h, pool, h.org, validity, issued)
		}
	}
	k.AddInvariant(checkDone)
	k.RunUntil(func() bool {
		for _, h := range hss {
			h.mu.Lock()
			d := h.started && h.cliDone && h.srvDone
			h.mu.Unlock()
			if !d {
				return false
			}
		}
		return true
	})
	k.Drain()
	k.ReleaseAll()
	k.Drain()
	checkDone()
	for _, h := range hss {
		if h.started && !checked[h.idx] && k.Inconclusive == "" {
			k.Fail("C06.handshake", map[string]string{"spelling": h.spelling}, "handshake %d (%s) did not finish at network quiescence: client done=%v server done=%v", h.idx, h.spelling, h.cliDone, h.srvDone)
		}
	}
	n.Shutdown()
	k.Settle()
}

func c06Check(k *kernel.K, h *c06HS, pool *x509.CertPool, org string, validity time.Duration, issued map[string][]*x509.Certificate) {
	desc := fmt.Sprintf("handshake %d (%s: api=%s TLSForHost(%q) sni=%q, started %v after the start of the run, clock moved %v during it)", h.idx, h.spelling, h.api, h.hostArg, h.sni, h.startAt.Sub(time.Date(2000, 1, 1, 0, 0, 0, 0, time.UTC)).Round(time.Second), h.jumped)
	if h.expect == "" {
		k.Probe("no_name_available")
		if h.cliErr == nil && h.srvErr == nil {
			names := "?"
			if len(h.certs) > 0 {
				names = fmt.Sprintf("CN=%q DNS=%v IP=%v", h.certs[0].Subject.CommonName, h.certs[0].DNSNames, h.certs[0].IPAddresses)
			}
			k.Fail("C06.refuse_without_name", map[string]string{"api": h.api}, "%s: neither SNI nor a fallback host was available, yet the handshake completed with a certificate for %s", desc, names)
		}
		return
	}
	if h.cliErr != nil || h.srvErr != nil || len(h.certs) == 0 {
		k.Fail("C06.handshake", map[string]string{"spelling": h.spelling}, "%s: handshake failed: client %v / server %v", desc, h.cliErr, h.srvErr)
		return
	}
	leaf := h.certs[0]
	opts := x509.VerifyOptions{Roots: pool, Intermediates: x509.NewCertPool(), CurrentTime: h.endAt, DNSName: h.expect}
	for _, c := range h.certs[1:] {
		opts.Intermediates.AddCert(c)
	}
	_, err := leaf.Verify(opts)
	if err != nil && h.jumped > 0 {
		// the clock moved while this handshake was in flight: valid at its start is enough
		opts.CurrentTime = h.startAt
		_, err = leaf.Verify(opts)
	}
	if err != nil {
		k.Fail("C06.verifies", map[string]string{"spelling": h.spelling}, "%s: presented chain does not verify for %q under the configured CA at handshake time %v: %v (leaf valid %v .. %v, DNS=%v IP=%v)", desc, h.expect, h.endAt.Format(time.RFC3339), err, leaf.NotBefore.Format(time.RFC3339), leaf.NotAfter.Format(time.RFC3339), leaf.DNSNames, leaf.IPAddresses)
	}
	// SANs: exactly the requested host
	var sans []string
	for _, d := range leaf.DNSNames {
		sans = append(sans, strings.ToLower(d))
	}
	for _, ip := range leaf.IPAddresses {
		sans = append(sans, ip.String())
	}
	want := strings.ToLower(h.expect)
	if ip := net.ParseIP(h.expect); ip != nil {
		want = ip.String()
		if len(leaf.DNSNames) > 0 {
			k.Fail("C06.san_exact", map[string]string{"spelling": h.spelling}, "%s: IP literal certified as DNS name(s) %v", desc, leaf.DNSNames)
		}
	}
	if len(sans) != 1 || sans[0] != want {
		k.Fail("C06.san_exact", map[string]string{"spelling": h.spelling}, "%s: certificate names %v, want exactly [%s]", desc, sans, want)
	}
	if len(leaf.Subject.Organization) != 1 || leaf.Subject.Organization[0] != org {
		k.Fail("C06.org", nil, "%s: certificate organization %v, configured %q", desc, leaf.Subject.Organization, org)
	}
	// reuse only while valid: a certificate seen before must still be inside its window now
	key := want
	for _, prev := range issued[key] {
		if prev.Equal(leaf) {
			k.Probe("cached_leaf_reused")
			if h.startAt.After(prev.NotAfter) {
				k.Fail("C06.no_invalid_cached", nil, "%s: a cached certificate that expired at %v was presented again", desc, prev.NotAfter.Format(time.RFC3339))
			}
		}
	}
	if len(issued[key]) > 0 && !issued[key][len(issued[key])-1].Equal(leaf) {
		k.Probe("fresh_leaf_issued_for_known_name")
	}
	issued[key] = append(issued[key], leaf)
}
