// Package kernel is the deterministic-simulation core: choice tapes, the
// one-stimulus-then-quiescence controller, the event log, and the goroutine census.
package kernel

import (
	"math/rand/v2"
)

// Tape is a recorded sequence of choices. In generation mode values come from a PCG
// seeded from the run seed and are recorded; in replay mode they come from the recorded
// values (past the end: 0). Value 0 always denotes the plainest option.
type Tape struct {
	rng    *rand.Rand
	replay bool
	vals   []uint32
	pos    int
	// Overrun counts draws past the end of a replayed tape.
	Overrun int
}

// NewTape returns a generating tape.
func NewTape(seed, stream uint64) *Tape {
	return &Tape{rng: rand.New(rand.NewPCG(seed, stream))}
}

// ReplayTape returns a tape that replays vals.
func ReplayTape(vals []uint32) *Tape {
	return &Tape{replay: true, vals: vals}
}

// Values returns the draws made so far (generation) or the replayed values consumed.
func (t *Tape) Values() []uint32 {
	if t.replay {
		n := t.pos
		if n > len(t.vals) {
			n = len(t.vals)
		}
		return append([]uint32(nil), t.vals[:n]...)
	}
	return append([]uint32(nil), t.vals...)
}

// Pos returns the number of draws made.
func (t *Tape) Pos() int { return t.pos }

func (t *Tape) raw(n uint32) uint32 {
	if n <= 1 {
		// Still consumes a slot so that tapes stay aligned when option counts change by state.
		n = 1
	}
	var v uint32
	if t.replay {
		if t.pos < len(t.vals) {
			v = t.vals[t.pos] % n
		} else {
			t.Overrun++
		}
	} else {
		v = uint32(t.rng.Uint64N(uint64(n)))
		t.vals = append(t.vals, v)
	}
	t.pos++
	return v
}

// Draw returns a value in [0,n). 0 is the plainest option.
func (t *Tape) Draw(n int) int {
	if n <= 0 {
		n = 1
	}
	return int(t.raw(uint32(n)))
}

// Range returns a value in [lo,hi] (inclusive); lo is the plainest.
func (t *Tape) Range(lo, hi int) int {
	if hi < lo {
		hi = lo
	}
	return lo + t.Draw(hi-lo+1)
}

// Chance returns true with probability num/den; false is the plain option.
func (t *Tape) Chance(num, den int) bool {
	v := t.Draw(den)
	// true for the top num values so that 0 means false.
	return v >= den-num
}

// Pick returns an index into weights chosen with probability proportional to the weight.
// Index 0 is drawn for value 0 provided weights[0] > 0.
func (t *Tape) Pick(weights []int) int {
	total := 0
	for _, w := range weights {
		if w > 0 {
			total += w
		}
	}
	if total == 0 {
		t.Draw(1)
		return 0
	}
	v := t.Draw(total)
	for i, w := range weights {
		if w <= 0 {
			continue
		}
		if v < w {
			return i
		}
		v -= w
	}
	return len(weights) - 1
}

// Bytes fills a fresh slice of n pseudo-random bytes using 1 draw per 3 bytes.
func (t *Tape) Bytes(n int) []byte {
	b := make([]byte, n)
	for i := 0; i < n; i += 3 {
		v := t.raw(1 << 24)
		b[i] = byte(v)
		if i+1 < n {
			b[i+1] = byte(v >> 8)
		}
		if i+2 < n {
			b[i+2] = byte(v >> 16)
		}
	}
	return b
}
