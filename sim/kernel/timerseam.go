package kernel

import _ "unsafe" // go:linkname

// The synctest runtime orders timers that fire at the same simulated instant by a per-timer
// random value drawn from a per-thread generator the program cannot seed. tools/instrument.py
// overlays runtime/time.go (rewrite R0) so that the value is a function of two variables the
// kernel owns: a sequence number, reset at the start of every run, and a salt drawn from the
// schedule tape (0 = first armed fires first).

//go:linkname verifTimerSalt runtime.verifTimerSalt
var verifTimerSalt uint32

//go:linkname verifTimerSeq runtime.verifTimerSeq
var verifTimerSeq uint32

// verifSelSeq: the same for the order in which a select inside the bubble polls its cases (rewrite
// R0d of runtime/select.go); salt 0 = source order.
//
//go:linkname verifSelSeq runtime.verifSelSeq
var verifSelSeq uint32

// seedTimerOrder is called once per run, inside the bubble, before anything else arms a timer.
func seedTimerOrder(s *Tape) uint32 {
	verifTimerSeq = 0
	verifSelSeq = 0
	verifTimerSalt = 0
	if s != nil && s.Chance(1, 2) {
		verifTimerSalt = uint32(s.Draw(1<<31-1)) + 1
	}
	return verifTimerSalt
}
