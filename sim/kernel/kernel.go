package kernel

import (
	"crypto/sha256"
	"encoding/hex"
	"fmt"
	"hash"
	"hash/fnv"
	"os"
	"runtime"
	"runtime/metrics"
	"sort"
	"strings"
	"sync"
	"time"
)

// Violation is one failed oracle predicate.
type Violation struct {
	CheckID string            `json:"check_id"`
	Params  map[string]string `json:"params,omitempty"`
	Text    string            `json:"text"`
	Step    int               `json:"step"`
}

// Key is the identity used for known-finding matching and minimisation.
func (v Violation) Key() string {
	ks := make([]string, 0, len(v.Params))
	for k := range v.Params {
		ks = append(ks, k)
	}
	sort.Strings(ks)
	var sb strings.Builder
	sb.WriteString(v.CheckID)
	sb.WriteString("{")
	for i, k := range ks {
		if i > 0 {
			sb.WriteString(",")
		}
		sb.WriteString(k + "=" + v.Params[k])
	}
	sb.WriteString("}")
	return sb.String()
}

// Class of an action; drain mode only applies Deliver/Actor/Gate classes.
type Class int

const (
	Deliver Class = iota // move bytes / fin on a simulated connection
	Actor                // a scripted endpoint performs its next operation
	Gate                 // release a parked goroutine
	Fault                // inject a fault
	Clock                // advance the simulated clock
	Call                 // harness call into the system (Close, Export, POST ...)
)

// Action is one stimulus the controller may apply.
type Action struct {
	Key   string // canonical name, goes into the event log
	W     int    // weight (>0)
	Class Class
	Fault string // fault-kind counter to bump when applied
	Do    func()
}

// Source enumerates enabled actions in canonical order.
type Source func(add func(Action))

// K is the per-run kernel handle.
type K struct {
	Seed     uint64
	W, S     *Tape // workload tape, schedule tape
	StepN    int
	MaxSteps int

	Draining bool

	Viols        []Violation
	violKeys     map[string]bool
	Inconclusive string
	Faults       map[string]int
	Probes       map[string]int
	States       map[uint64]struct{}
	Sample       []string // human-readable rendering of the workload + first actions

	Trace  bool
	Lines  []string
	h      hash.Hash
	t0     time.Time
	srcs   []Source
	hooks  []func() bool
	invs   []func()
	bubble int

	// StateFn contributes the world's abstract state to the fingerprint at each step.
	StateFn func() string

	lastProgress time.Time // real time; read by the watchdog

	gmu       sync.Mutex
	gates     []*GateRec
	HoldGates bool
	// BurstGates additionally offers releasing all parked gates in one step.
	BurstGates bool
	// FastAdvance skips the mutex census before every clock advance.
	FastAdvance bool
}

// NewK builds a kernel handle. Must be called inside the bubble.
func NewK(seed uint64, w, s *Tape, trace bool) *K {
	seedTimerOrder(s)
	return &K{
		Seed: seed, W: w, S: s, MaxSteps: 20000,
		violKeys: map[string]bool{},
		Faults:   map[string]int{}, Probes: map[string]int{},
		States: map[uint64]struct{}{},
		Trace:  trace,
		h:      sha256.New(),
		t0:     time.Now(),
	}
}

// Now returns simulated time since the start of the run.
func (k *K) Now() time.Duration { return time.Since(k.t0) }

// Logf appends a line to the event log (hashed; kept only when tracing).
func (k *K) Logf(format string, args ...any) {
	line := fmt.Sprintf(format, args...)
	fmt.Fprintf(k.h, "%d %s\n", k.StepN, line)
	if k.Trace {
		k.Lines = append(k.Lines, fmt.Sprintf("[%d t=%v] %s", k.StepN, k.Now(), line))
	}
}

// Note adds a sample line (not hashed).
func (k *K) Note(format string, args ...any) {
	if len(k.Sample) < 40 {
		k.Sample = append(k.Sample, fmt.Sprintf(format, args...))
	}
}

// LogHash returns the hash of the event log so far.
func (k *K) LogHash() string { return hex.EncodeToString(k.h.Sum(nil))[:32] }

// Fail records a violation; the run continues.
func (k *K) Fail(checkID string, params map[string]string, format string, args ...any) {
	v := Violation{CheckID: checkID, Params: params, Text: fmt.Sprintf(format, args...), Step: k.StepN}
	key := v.Key()
	k.Logf("VIOLATION %s", key)
	if k.violKeys[key] {
		return
	}
	k.violKeys[key] = true
	k.Viols = append(k.Viols, v)
}

// Failed reports whether any violation has been recorded.
func (k *K) Failed() bool { return len(k.Viols) > 0 }

// Probe counts that a rare condition was reached.
func (k *K) Probe(name string) { k.Probes[name]++ }

// FaultFired counts a fault that actually fired.
func (k *K) FaultFired(name string) { k.Faults[name]++ }

// AddSource registers an action source. Order of registration is the canonical order.
func (k *K) AddSource(s Source) { k.srcs = append(k.srcs, s) }

var qsamples = []metrics.Sample{
	{Name: "/sched/goroutines/runnable:goroutines"},
	{Name: "/sched/goroutines/running:goroutines"},
	{Name: "/sched/goroutines/not-in-go:goroutines"},
}

func quiet() bool {
	metrics.Read(qsamples)
	return qsamples[0].Value.Uint64() == 0 && qsamples[1].Value.Uint64() <= 1 && qsamples[2].Value.Uint64() == 0
}

// Progress is bumped by the controller; the watchdog outside the bubble reads it.
var Progress uint64

// Quiesce returns when no goroutine other than the caller can run.
// Requires GOMAXPROCS=1.
func (k *K) Quiesce() {
	Progress++
	for {
		runtime.Gosched()
		if quiet() {
			// Confirm once more after another yield: a goroutine readied by a system
			// goroutine between the read and now would show up here. (The garbage
			// collector is kept off during a run - see the worker - because goroutines
			// parked in a GC assist and idle mark workers are invisible to these counters.)
			runtime.Gosched()
			if quiet() {
				return
			}
		}
	}
}

// AddSettleHook registers a function run on the controller goroutine at quiescence; it returns
// true if it changed anything (the kernel then quiesces again).
func (k *K) AddSettleHook(f func() bool) { k.hooks = append(k.hooks, f) }

// Settle quiesces, runs the settle hooks, and repeats until nothing changes.
func (k *K) Settle() {
	for {
		k.Quiesce()
		changed := false
		for _, h := range k.hooks {
			if h() {
				changed = true
			}
		}
		if !changed {
			break
		}
	}
	for _, inv := range k.invs {
		inv()
	}
	if qTrace {
		var parts []string
		for _, g := range k.Census() {
			f := g.TopWith("martian")
			if f == "" {
				f = g.TopWith("simnet")
			}
			if f == "" && len(g.Frames) > 0 {
				f = g.Frames[0]
			}
			parts = append(parts, fmt.Sprintf("g%d[%s]%s", g.ID, g.State, f))
		}
		k.Logf("DBG settle: %s", strings.Join(parts, " "))
	}
}

// AddInvariant registers a check evaluated at every stable quiescence (after the settle hooks
// have nothing left to do).
func (k *K) AddInvariant(f func()) { k.invs = append(k.invs, f) }

// Enabled lists the currently enabled actions in canonical order, honouring drain mode.
func (k *K) Enabled() []Action {
	var acts []Action
	for _, s := range k.srcs {
		s(func(a Action) {
			if a.W <= 0 {
				a.W = 1
			}
			if k.Draining && (a.Class == Fault || a.Class == Clock || a.Class == Call) {
				return
			}
			acts = append(acts, a)
		})
	}
	return acts
}

// Step quiesces, observes, and applies one action chosen by the schedule tape.
// It returns false when no action is enabled or the step cap is reached.
func (k *K) Step() bool {
	k.Settle()
	if k.StepN >= k.MaxSteps {
		if k.Inconclusive == "" {
			k.Inconclusive = "step_cap"
		}
		return false
	}
	k.observe()
	acts := k.Enabled()
	if len(acts) == 0 {
		return false
	}
	ws := make([]int, len(acts))
	for i, a := range acts {
		ws[i] = a.W
	}
	a := acts[k.S.Pick(ws)]
	k.apply(a)
	return true
}

func (k *K) apply(a Action) {
	k.Logf("A %s", a.Key)
	if a.Fault != "" {
		k.Faults[a.Fault]++
	}
	k.StepN++
	a.Do()
}

// Do applies a specific action now (after quiescing) without consulting the tape.
func (k *K) Do(a Action) {
	k.Settle()
	k.observe()
	k.apply(a)
}

func (k *K) observe() {
	if k.StateFn != nil {
		s := k.StateFn()
		h := fnv.New64a()
		h.Write([]byte(s))
		k.States[h.Sum64()] = struct{}{}
		k.Logf("S %s", s)
	}
}

// Drain applies enabled non-fault, non-clock actions until none is enabled.
func (k *K) Drain() {
	old := k.Draining
	k.Draining = true
	for k.Step() {
	}
	k.Draining = old
	k.Settle()
}

// RunUntil steps until done() is true (checked at quiescence) or nothing is enabled.
func (k *K) RunUntil(done func() bool) {
	for {
		k.Settle()
		if done() {
			return
		}
		if !k.Step() {
			return
		}
	}
}

// Advance moves simulated time forward by d. It refuses (returns false) when a goroutine of
// this bubble is blocked on a mutex, because bubble time cannot advance then.
func (k *K) Advance(d time.Duration) bool {
	k.Quiesce()
	if k.FastAdvance {
		// no goroutine census: a world that sets this accepts that a goroutine stuck on a mutex
		// whose holder sleeps would hang the clock (the worker's watchdog then ends the process)
		k.Logf("advance %v", d)
		time.Sleep(d)
		k.Settle()
		return true
	}
	if gs := k.MutexBlocked(); len(gs) > 0 {
		k.Logf("advance refused: %d goroutines blocked on a mutex", len(gs))
		return false
	}
	k.Logf("advance %v", d)
	time.Sleep(d)
	k.Settle()
	return true
}

// G describes one goroutine of the census.
type G struct {
	ID      int
	State   string // wait reason as printed by the runtime, e.g. "chan receive"
	Durable bool
	Bubble  int
	Frames  []string // function names, innermost first
}

// Has reports whether any frame contains substr.
func (g G) Has(substr string) bool {
	for _, f := range g.Frames {
		if strings.Contains(f, substr) {
			return true
		}
	}
	return false
}

// TopWith returns the innermost frame containing substr.
func (g G) TopWith(substr string) string {
	for _, f := range g.Frames {
		if strings.Contains(f, substr) {
			return f
		}
	}
	return ""
}

// Census returns the goroutines of the caller's bubble other than the caller. Call at quiescence.
func (k *K) Census() []G {
	buf := make([]byte, 1<<20)
	for {
		n := runtime.Stack(buf, true)
		if n < len(buf) {
			buf = buf[:n]
			break
		}
		buf = make([]byte, 2*len(buf))
	}
	all := parseStacks(string(buf))
	if len(all) == 0 {
		return nil
	}
	me := all[0]
	var out []G
	for _, g := range all[1:] {
		if g.Bubble == me.Bubble && me.Bubble != 0 {
			out = append(out, g)
		}
	}
	sort.Slice(out, func(i, j int) bool { return out[i].ID < out[j].ID })
	return out
}

// MutexBlocked lists goroutines of this bubble waiting on a sync.Mutex/RWMutex.
func (k *K) MutexBlocked() []G {
	var out []G
	for _, g := range k.Census() {
		if strings.HasPrefix(g.State, "sync.Mutex") || strings.HasPrefix(g.State, "sync.RWMutex") {
			out = append(out, g)
		}
	}
	return out
}

func parseStacks(s string) []G {
	var out []G
	for _, blk := range strings.Split(s, "\n\n") {
		lines := strings.Split(strings.TrimSpace(blk), "\n")
		if len(lines) == 0 || !strings.HasPrefix(lines[0], "goroutine ") {
			continue
		}
		var g G
		hdr := lines[0]
		fmt.Sscanf(hdr, "goroutine %d ", &g.ID)
		if i := strings.Index(hdr, "["); i >= 0 {
			if j := strings.LastIndex(hdr, "]"); j > i {
				for n, part := range strings.Split(hdr[i+1:j], ", ") {
					switch {
					case strings.HasPrefix(part, "synctest bubble "):
						fmt.Sscanf(part, "synctest bubble %d", &g.Bubble)
					case n == 0:
						st := part
						if strings.HasSuffix(st, " (durable)") {
							g.Durable = true
							st = strings.TrimSuffix(st, " (durable)")
						}
						g.State = st
					}
				}
			}
		}
		for _, l := range lines[1:] {
			if strings.HasPrefix(l, "\t") || strings.HasPrefix(l, " ") {
				continue
			}
			if strings.HasPrefix(l, "created by ") {
				f := strings.TrimPrefix(l, "created by ")
				if i := strings.Index(f, " in goroutine"); i >= 0 {
					f = f[:i]
				}
				g.Frames = append(g.Frames, "created by "+f)
				continue
			}
			if i := strings.LastIndex(l, "("); i > 0 {
				l = l[:i]
			}
			g.Frames = append(g.Frames, l)
		}
		out = append(out, g)
	}
	return out
}

// CensusSummary groups goroutines whose stacks contain substr by (top matching frame, state).
func CensusSummary(gs []G, substr string) map[string]int {
	m := map[string]int{}
	for _, g := range gs {
		if f := g.TopWith(substr); f != "" && !strings.HasPrefix(f, "created by ") {
			m[f+" ["+g.State+"]"]++
		}
	}
	return m
}

// FormatSummary renders a census summary deterministically.
func FormatSummary(m map[string]int) string {
	ks := make([]string, 0, len(m))
	for k := range m {
		ks = append(ks, k)
	}
	sort.Strings(ks)
	var sb strings.Builder
	for _, k := range ks {
		fmt.Fprintf(&sb, "%s x%d; ", k, m[k])
	}
	return sb.String()
}

// ---------------------------------------------------------------------------------------
// Gates: controller-owned park points inside harness code that runs on system goroutines.

// GateRec is one goroutine parked at a gate.
type GateRec struct {
	Name     string
	ch       chan struct{}
	Released bool
	ArrStep  int
	RelStep  int
}

// Park blocks the calling (system) goroutine until the controller releases the gate.
// Must be called from inside the bubble.
func (k *K) Park(name string) {
	g := &GateRec{Name: name, ch: make(chan struct{}), ArrStep: k.StepN}
	k.gmu.Lock()
	k.gates = append(k.gates, g)
	k.gmu.Unlock()
	<-g.ch
}

// Parked lists gates whose goroutine is waiting, in arrival order.
func (k *K) Parked() []*GateRec {
	k.gmu.Lock()
	defer k.gmu.Unlock()
	var out []*GateRec
	for _, g := range k.gates {
		if !g.Released {
			out = append(out, g)
		}
	}
	// canonical order: by name (arrival order may depend on things the simulator does not own,
	// such as map iteration order inside the system)
	sort.SliceStable(out, func(i, j int) bool { return out[i].Name < out[j].Name })
	return out
}

// Release opens a gate.
func (k *K) Release(g *GateRec) {
	k.gmu.Lock()
	if g.Released {
		k.gmu.Unlock()
		return
	}
	g.Released = true
	g.RelStep = k.StepN
	k.gmu.Unlock()
	close(g.ch)
}

// GateSource offers one release action per parked gate. HoldGates suspends it.
func (k *K) GateSource(add func(Action)) {
	if k.HoldGates {
		return
	}
	parked := k.Parked()
	for _, g := range parked {
		g := g
		add(Action{Key: "release " + g.Name, W: 3, Class: Gate, Do: func() { k.Release(g) }})
	}
	if len(parked) >= 2 && k.BurstGates {
		// One stimulus that wakes several goroutines: they then run with no controller-imposed
		// order between them (who blocks where decides the interleaving).
		add(Action{Key: fmt.Sprintf("burst release %d gates", len(parked)), W: 3, Class: Gate, Do: func() {
			k.Probe("burst_release")
			for _, g := range parked {
				k.Release(g)
			}
		}})
	}
}

// ReleaseAll opens every parked gate (end-of-run cleanup).
func (k *K) ReleaseAll() {
	for _, g := range k.Parked() {
		k.Release(g)
	}
}

var lyTrace = os.Getenv("VERIF_LYTRACE") != ""
var qTrace = os.Getenv("VERIF_QTRACE") != ""

// LockYield returns a hook for the yield points that seam R8 puts before mutex acquisitions: it
// parks the calling goroutine at a few acquisitions chosen by the schedule tape (by their
// ordinal number in the run), so that other goroutines run between two critical sections of the
// parked one. The parked goroutine is released like any other gate.
func (k *K) LockYield() func(site string) {
	targets := map[int]bool{}
	if k.S != nil {
		n := k.S.Pick([]int{3, 3, 2, 1, 1})
		span := []int{40, 150, 600, 2500}[k.S.Draw(4)]
		for i := 0; i < n; i++ {
			targets[k.S.Draw(span)] = true
		}
	}
	var mu sync.Mutex
	c := 0
	return func(site string) {
		mu.Lock()
		i := c
		c++
		hit := targets[i]
		mu.Unlock()
		if lyTrace {
			k.Logf("DBG lockyield #%d %s hit=%v", i, site, hit)
		}
		if hit && !k.Draining {
			k.Probe("parked_before_lock")
			k.Park(fmt.Sprintf("%s#%d", site, i))
		}
	}
}
