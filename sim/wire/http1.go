// Package wire holds the harness's own strict, incremental wire parsers. They are the
// independent observers the oracles rely on; nothing here uses martian or net/http parsing.
package wire

import (
	"bytes"
	"fmt"
	"sort"
	"strconv"
	"strings"
)

// HF is one header field as it appeared on the wire.
type HF struct{ Name, Value string }

// Msg is one parsed HTTP/1 message.
type Msg struct {
	IsReq  bool
	Method string
	Target string
	Proto  string
	Status int
	Reason string

	Header  []HF
	Trailer []HF
	Body    []byte

	Framing    string // "none", "cl", "chunked", "close"
	DeclaredCL int64
	Complete   bool
	HeadDone   bool
	HeadLen    int
	Chunks     int
	Interim    bool // 1xx response
}

// Get returns the values of header name (case-insensitive), in order.
func (m *Msg) Get(name string) []string {
	var out []string
	for _, h := range m.Header {
		if strings.EqualFold(h.Name, name) {
			out = append(out, h.Value)
		}
	}
	return out
}

// Has reports whether the header is present.
func (m *Msg) Has(name string) bool { return len(m.Get(name)) > 0 }

// First returns the first value of a header or "".
func (m *Msg) First(name string) string {
	v := m.Get(name)
	if len(v) == 0 {
		return ""
	}
	return v[0]
}

// TokenList returns the comma-separated, trimmed, lower-cased tokens of all values of name.
func (m *Msg) TokenList(name string) []string {
	var out []string
	for _, v := range m.Get(name) {
		for _, t := range strings.Split(v, ",") {
			t = strings.ToLower(strings.TrimSpace(t))
			if t != "" {
				out = append(out, t)
			}
		}
	}
	return out
}

// WantsClose reports whether the message asks for the connection to be closed after it.
func (m *Msg) WantsClose() bool {
	for _, t := range m.TokenList("Connection") {
		if t == "close" {
			return true
		}
	}
	if m.Proto == "HTTP/1.0" {
		for _, t := range m.TokenList("Connection") {
			if t == "keep-alive" {
				return false
			}
		}
		return true
	}
	return false
}

// HeaderMap groups header values by lower-cased name.
func HeaderMap(hs []HF) map[string][]string {
	m := map[string][]string{}
	for _, h := range hs {
		k := strings.ToLower(h.Name)
		m[k] = append(m[k], h.Value)
	}
	return m
}

// SortedNames returns the keys of a header map sorted.
func SortedNames(m map[string][]string) []string {
	ks := make([]string, 0, len(m))
	for k := range m {
		ks = append(ks, k)
	}
	sort.Strings(ks)
	return ks
}

type pstate int

const (
	stHead pstate = iota
	stBodyCL
	stChunkSize
	stChunkData
	stChunkCRLF
	stTrailer
	stBodyClose
	stError
	stTunnel // after a successful CONNECT: raw bytes
)

// Parser incrementally parses a stream of HTTP/1 requests or responses.
type Parser struct {
	IsReq bool
	// Methods is the queue of request methods responses are expected for (response parser only).
	Methods []string

	Msgs []*Msg // completed messages (including interim 1xx responses)
	Cur  *Msg   // message in progress (nil between messages)
	Err  error
	EOF  bool
	// Raw holds bytes received after a protocol error or in tunnel mode.
	Raw []byte
	// Total counts all bytes fed.
	Total int64

	st     pstate
	buf    []byte
	remain int64
	mi     int // index into Methods
}

// NewReqParser parses requests.
func NewReqParser() *Parser { return &Parser{IsReq: true} }

// NewRespParser parses responses.
func NewRespParser() *Parser { return &Parser{} }

// Expect tells a response parser which request method the next response answers.
func (p *Parser) Expect(method string) { p.Methods = append(p.Methods, method) }

// Tunnel switches the parser to raw mode (after CONNECT).
func (p *Parser) Tunnel() {
	p.st = stTunnel
	p.Raw = append(p.Raw, p.buf...)
	p.buf = nil
}

// Idle reports whether the parser sits between messages with no buffered bytes.
func (p *Parser) Idle() bool { return p.Cur == nil && len(p.buf) == 0 && p.st == stHead }

func (p *Parser) fail(format string, args ...any) {
	p.Err = fmt.Errorf(format, args...)
	p.st = stError
	p.Raw = append(p.Raw, p.buf...)
	p.buf = nil
}

// Feed consumes bytes.
func (p *Parser) Feed(b []byte) {
	p.Total += int64(len(b))
	if p.st == stError || p.st == stTunnel {
		p.Raw = append(p.Raw, b...)
		return
	}
	p.buf = append(p.buf, b...)
	for p.step() {
	}
}

// End signals end of stream.
func (p *Parser) End() {
	p.EOF = true
	if p.st == stBodyClose && p.Cur != nil {
		p.Cur.Complete = true
		p.finish()
	}
}

func (p *Parser) finish() {
	p.Msgs = append(p.Msgs, p.Cur)
	p.Cur = nil
	p.st = stHead
}

func validToken(s string) bool {
	if s == "" {
		return false
	}
	for i := 0; i < len(s); i++ {
		c := s[i]
		if c <= 32 || c >= 127 || strings.IndexByte("()<>@,;:\\\"/[]?={}", c) >= 0 {
			return false
		}
	}
	return true
}

func parseFields(lines []string) ([]HF, error) {
	var out []HF
	for _, l := range lines {
		i := strings.IndexByte(l, ':')
		if i <= 0 {
			return nil, fmt.Errorf("malformed header line %q", l)
		}
		name := l[:i]
		if !validToken(name) {
			return nil, fmt.Errorf("malformed header name %q", name)
		}
		out = append(out, HF{name, strings.Trim(l[i+1:], " \t")})
	}
	return out, nil
}

// step makes progress on buffered bytes; returns false when more input is needed.
func (p *Parser) step() bool {
	switch p.st {
	case stHead:
		if p.Cur == nil && len(p.buf) == 0 {
			return false
		}
		i := bytes.Index(p.buf, []byte("\r\n\r\n"))
		if i < 0 {
			if len(p.buf) > 1<<20 {
				p.fail("head larger than 1 MiB")
			}
			return false
		}
		head := string(p.buf[:i])
		p.buf = p.buf[i+4:]
		lines := strings.Split(head, "\r\n")
		m := &Msg{IsReq: p.IsReq, HeadLen: i + 4}
		p.Cur = m
		if strings.ContainsAny(strings.ReplaceAll(head, "\r\n", ""), "\r\n\x00") {
			p.fail("bare CR/LF or NUL in head")
			return false
		}
		if p.IsReq {
			parts := strings.Split(lines[0], " ")
			if len(parts) != 3 || !validToken(parts[0]) || !strings.HasPrefix(parts[2], "HTTP/1.") {
				p.fail("malformed request line %q", lines[0])
				return false
			}
			m.Method, m.Target, m.Proto = parts[0], parts[1], parts[2]
		} else {
			parts := strings.SplitN(lines[0], " ", 3)
			if len(parts) < 2 || !strings.HasPrefix(parts[0], "HTTP/1.") || len(parts[1]) != 3 {
				p.fail("malformed status line %q", lines[0])
				return false
			}
			code, err := strconv.Atoi(parts[1])
			if err != nil {
				p.fail("malformed status code %q", lines[0])
				return false
			}
			m.Proto, m.Status = parts[0], code
			if len(parts) == 3 {
				m.Reason = parts[2]
			}
		}
		hs, err := parseFields(lines[1:])
		if err != nil {
			p.fail("%v", err)
			return false
		}
		m.Header = hs
		m.HeadDone = true
		return p.decideBody()
	case stBodyCL:
		if len(p.buf) == 0 {
			return false
		}
		n := int64(len(p.buf))
		if n > p.remain {
			n = p.remain
		}
		p.Cur.Body = append(p.Cur.Body, p.buf[:n]...)
		p.buf = p.buf[n:]
		p.remain -= n
		if p.remain == 0 {
			p.Cur.Complete = true
			p.finish()
			return true
		}
		return false
	case stChunkSize:
		i := bytes.Index(p.buf, []byte("\r\n"))
		if i < 0 {
			if len(p.buf) > 1024 {
				p.fail("chunk-size line too long")
			}
			return false
		}
		line := string(p.buf[:i])
		p.buf = p.buf[i+2:]
		if j := strings.IndexByte(line, ';'); j >= 0 {
			line = line[:j]
		}
		line = strings.TrimSpace(line)
		sz, err := strconv.ParseInt(line, 16, 64)
		if err != nil || sz < 0 || line == "" {
			p.fail("malformed chunk size %q", line)
			return false
		}
		if sz == 0 {
			p.st = stTrailer
			return true
		}
		p.Cur.Chunks++
		p.remain = sz
		p.st = stChunkData
		return true
	case stChunkData:
		if len(p.buf) == 0 {
			return false
		}
		n := int64(len(p.buf))
		if n > p.remain {
			n = p.remain
		}
		p.Cur.Body = append(p.Cur.Body, p.buf[:n]...)
		p.buf = p.buf[n:]
		p.remain -= n
		if p.remain == 0 {
			p.st = stChunkCRLF
			return true
		}
		return false
	case stChunkCRLF:
		if len(p.buf) < 2 {
			return false
		}
		if p.buf[0] != '\r' || p.buf[1] != '\n' {
			p.fail("missing CRLF after chunk data")
			return false
		}
		p.buf = p.buf[2:]
		p.st = stChunkSize
		return true
	case stTrailer:
		// Either an immediate CRLF or field lines ended by an empty line.
		if len(p.buf) >= 2 && p.buf[0] == '\r' && p.buf[1] == '\n' {
			p.buf = p.buf[2:]
			p.Cur.Complete = true
			p.finish()
			return true
		}
		i := bytes.Index(p.buf, []byte("\r\n\r\n"))
		if i < 0 {
			if len(p.buf) > 1<<16 {
				p.fail("trailer too long")
			}
			return false
		}
		lines := strings.Split(string(p.buf[:i]), "\r\n")
		p.buf = p.buf[i+4:]
		hs, err := parseFields(lines)
		if err != nil {
			p.fail("trailer: %v", err)
			return false
		}
		p.Cur.Trailer = hs
		p.Cur.Complete = true
		p.finish()
		return true
	case stBodyClose:
		if len(p.buf) == 0 {
			return false
		}
		p.Cur.Body = append(p.Cur.Body, p.buf...)
		p.buf = nil
		return false
	}
	return false
}

func (p *Parser) decideBody() bool {
	m := p.Cur
	te := m.TokenList("Transfer-Encoding")
	cls := m.Get("Content-Length")
	chunked := len(te) > 0 && te[len(te)-1] == "chunked"
	if len(te) > 0 && !chunked && p.IsReq {
		p.fail("request Transfer-Encoding %v does not end in chunked", te)
		return false
	}
	var cl int64 = -1
	if len(cls) > 0 {
		for _, c := range cls {
			v, err := strconv.ParseInt(strings.TrimSpace(c), 10, 64)
			if err != nil || v < 0 {
				p.fail("malformed Content-Length %q", c)
				return false
			}
			if cl >= 0 && v != cl {
				p.fail("conflicting Content-Length values %v", cls)
				return false
			}
			cl = v
		}
	}
	m.DeclaredCL = cl
	if chunked && cl >= 0 {
		p.fail("both Transfer-Encoding: chunked and Content-Length present")
		return false
	}
	if !p.IsReq {
		method := ""
		if p.mi < len(p.Methods) {
			method = p.Methods[p.mi]
		}
		if m.Status >= 100 && m.Status < 200 && m.Status != 101 {
			m.Interim = true
			m.Framing = "none"
			m.Complete = true
			p.finish()
			return true
		}
		p.mi++
		if method == "HEAD" || m.Status == 204 || m.Status == 304 {
			m.Framing = "none"
			m.Complete = true
			p.finish()
			return true
		}
		if method == "CONNECT" && m.Status >= 200 && m.Status < 300 {
			m.Framing = "none"
			m.Complete = true
			p.finish()
			p.Tunnel()
			return false
		}
	}
	switch {
	case chunked:
		m.Framing = "chunked"
		p.st = stChunkSize
	case cl > 0:
		m.Framing = "cl"
		p.remain = cl
		p.st = stBodyCL
	case cl == 0:
		m.Framing = "cl"
		m.Complete = true
		p.finish()
	case p.IsReq:
		m.Framing = "none"
		m.Complete = true
		p.finish()
		if m.Method == "CONNECT" {
			p.Tunnel()
			return false
		}
	default:
		m.Framing = "close"
		p.st = stBodyClose
	}
	return true
}

// Partial returns the message in progress (nil if none).
func (p *Parser) Partial() *Msg { return p.Cur }

// Final returns the completed non-interim messages.
func (p *Parser) Final() []*Msg {
	var out []*Msg
	for _, m := range p.Msgs {
		if !m.Interim {
			out = append(out, m)
		}
	}
	return out
}

// Buffered returns bytes received but not yet attributed to a message.
func (p *Parser) Buffered() []byte { return p.buf }
