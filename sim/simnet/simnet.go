// Package simnet is the simulated transport: every socket, listener and dialer the system
// under test sees. Bytes move only when the controller says so.
package simnet

import (
	"errors"
	"fmt"
	"io"
	"net"
	"os"
	"sort"
	"strings"
	"sync"
	"syscall"
	"time"

	"verifsim/kernel"
)

// ChunkPolicy decides how many bytes one deliver action moves.
type ChunkPolicy int

const (
	ChunkAll   ChunkPolicy = iota // everything in flight
	ChunkBig                      // up to 4096
	ChunkMed                      // 17..200
	ChunkSmall                    // 1..16
	ChunkByte                     // 1
	ChunkMixed                    // drawn per delivery from the above
	ChunkHuge                     // up to 65536
)

// pipe is one direction of a connection.
type pipe struct {
	name string
	mu   sync.Mutex
	cond *sync.Cond

	inflight []byte // written, not yet delivered
	recv     []byte // delivered, readable
	capacity int    // max len(inflight)+len(recv); 0 = unbounded
	auto     bool   // deliver immediately on write (no controller step)

	wclosed      bool // writer closed its end: FIN follows the in-flight bytes
	finDelivered bool
	rclosed      bool // reader closed its end: writes fail
	reset        bool // connection aborted: reads and writes fail

	writeErrAfter int // fault: next writes succeed for this many bytes, then fail; -1 off
	stalled       bool

	nWritten, nDelivered, nRead int64

	rdeadline, wdeadline time.Time
	rtimer, wtimer       *time.Timer

	// onData, when set, consumes delivered bytes at once (controller-driven raw endpoint).
	onData                   func(b []byte)
	onFin                    func()
	onRst                    func()
	policy                   ChunkPolicy
	finNotified, rstNotified bool
}

func newPipe(name string) *pipe {
	p := &pipe{name: name, writeErrAfter: -1}
	p.cond = sync.NewCond(&p.mu)
	return p
}

type timeoutError struct{}

func (timeoutError) Error() string   { return "i/o timeout" }
func (timeoutError) Timeout() bool   { return true }
func (timeoutError) Temporary() bool { return true }
func (timeoutError) Is(err error) bool {
	return err == os.ErrDeadlineExceeded
}

var errReset = &net.OpError{Op: "read", Net: "tcp", Err: syscall.ECONNRESET}
var errPipe = &net.OpError{Op: "write", Net: "tcp", Err: syscall.EPIPE}

func (p *pipe) read(b []byte) (int, error) {
	p.mu.Lock()
	defer p.mu.Unlock()
	for {
		if p.reset {
			return 0, errReset
		}
		if p.rclosed {
			return 0, net.ErrClosed
		}
		if len(b) == 0 {
			return 0, nil
		}
		// (as with a real socket, a read deadline that has passed fails the call before it looks
		// for data: bytes that are waiting do not help)
		if !p.rdeadline.IsZero() && !time.Now().Before(p.rdeadline) {
			return 0, timeoutError{}
		}
		if len(p.recv) > 0 {
			n := copy(b, p.recv)
			p.recv = p.recv[n:]
			if len(p.recv) == 0 {
				p.recv = nil
			}
			p.nRead += int64(n)
			p.cond.Broadcast()
			return n, nil
		}
		if p.finDelivered {
			return 0, io.EOF
		}
		if !p.rdeadline.IsZero() && !time.Now().Before(p.rdeadline) {
			return 0, timeoutError{}
		}
		p.cond.Wait()
	}
}

func (p *pipe) room() int {
	if p.capacity == 0 {
		return 1 << 30
	}
	r := p.capacity - len(p.inflight) - len(p.recv)
	if r < 0 {
		r = 0
	}
	return r
}

func (p *pipe) write(b []byte) (int, error) {
	p.mu.Lock()
	defer p.mu.Unlock()
	total := 0
	for {
		if p.reset {
			return total, errReset
		}
		if p.wclosed {
			return total, net.ErrClosed
		}
		if p.rclosed {
			return total, errPipe
		}
		if p.writeErrAfter == 0 {
			return total, errPipe
		}
		if len(b) == 0 {
			return total, nil
		}
		if !p.wdeadline.IsZero() && !time.Now().Before(p.wdeadline) {
			return total, timeoutError{}
		}
		if r := p.room(); r > 0 {
			n := len(b)
			if n > r {
				n = r
			}
			if p.writeErrAfter > 0 && n > p.writeErrAfter {
				n = p.writeErrAfter
			}
			if p.writeErrAfter > 0 {
				p.writeErrAfter -= n
			}
			p.nWritten += int64(n)
			total += n
			if p.auto && !p.stalled {
				p.nDelivered += int64(n)
				p.deliverLocked(append([]byte(nil), b[:n]...))
			} else {
				p.inflight = append(p.inflight, b[:n]...)
			}
			b = b[n:]
			continue
		}
		p.cond.Wait()
	}
}

// deliverLocked hands bytes to the reader side.
func (p *pipe) deliverLocked(b []byte) {
	p.recv = append(p.recv, b...)
	p.cond.Broadcast()
}

// closeWrite marks the writer end closed.
func (p *pipe) closeWrite() {
	p.mu.Lock()
	if !p.wclosed {
		p.wclosed = true
		if p.auto && !p.stalled && len(p.inflight) == 0 {
			p.finLocked()
		}
	}
	p.cond.Broadcast()
	p.mu.Unlock()
}

func (p *pipe) finLocked() {
	if p.finDelivered {
		return
	}
	p.finDelivered = true
	p.cond.Broadcast()
}

// closeRead marks the reader end closed; unread and in-flight bytes are discarded.
func (p *pipe) closeRead() {
	p.mu.Lock()
	p.rclosed = true
	p.recv = nil
	p.inflight = nil
	p.cond.Broadcast()
	p.mu.Unlock()
}

func (p *pipe) doReset() {
	p.mu.Lock()
	if !p.reset {
		p.reset = true
		p.recv = nil
		p.inflight = nil
	}
	p.cond.Broadcast()
	p.mu.Unlock()
}

func (p *pipe) setDeadline(t time.Time, read bool) {
	p.mu.Lock()
	defer p.mu.Unlock()
	tm := &p.wtimer
	if read {
		tm = &p.rtimer
		p.rdeadline = t
	} else {
		p.wdeadline = t
	}
	if *tm != nil {
		(*tm).Stop()
		*tm = nil
	}
	if !t.IsZero() {
		d := time.Until(t)
		if d < 0 {
			d = 0
		}
		*tm = time.AfterFunc(d, func() {
			p.mu.Lock()
			p.cond.Broadcast()
			p.mu.Unlock()
		})
	}
	p.cond.Broadcast()
}

func (p *pipe) stopTimers() {
	p.mu.Lock()
	if p.rtimer != nil {
		p.rtimer.Stop()
		p.rtimer = nil
	}
	if p.wtimer != nil {
		p.wtimer.Stop()
		p.wtimer = nil
	}
	p.mu.Unlock()
}

// Addr is a synthetic TCP-like address.
type Addr string

func (a Addr) Network() string { return "tcp" }
func (a Addr) String() string  { return string(a) }

// Op is one entry of a connection's operation log.
type Op struct {
	Step int
	Kind string // "read", "write", "close", "deadline"
	N    int
}

// Conn is one end of a simulated connection. It implements net.Conn.
type Conn struct {
	net    *Net
	id     int
	label  string
	rd, wr *pipe
	local  Addr
	remote Addr
	peer   *Conn

	mu     sync.Mutex
	closed bool
	ops    []Op
	LogOps bool
	// OnWrite, when set, is called after every Write with the cumulative number of bytes written
	// by this end (time-stamping of writes on the simulated clock).
	OnWrite func(cum int64)
}

func (c *Conn) logOp(kind string, n int) {
	if !c.LogOps {
		return
	}
	c.mu.Lock()
	c.ops = append(c.ops, Op{Step: c.net.k.StepN, Kind: kind, N: n})
	c.mu.Unlock()
}

// Ops returns a copy of the operation log.
func (c *Conn) Ops() []Op {
	c.mu.Lock()
	defer c.mu.Unlock()
	return append([]Op(nil), c.ops...)
}

func (c *Conn) Read(b []byte) (int, error) {
	c.logOp("read", len(b))
	n, err := c.rd.read(b)
	if err == net.ErrClosed {
		err = &net.OpError{Op: "read", Net: "tcp", Source: c.local, Addr: c.remote, Err: net.ErrClosed}
	}
	return n, err
}

func (c *Conn) Write(b []byte) (int, error) {
	c.logOp("write", len(b))
	c.wr.mu.Lock()
	lateData := c.wr.rclosed && !c.wr.reset && len(b) > 0
	c.wr.mu.Unlock()
	if lateData {
		c.lateDataResets()
	}
	n, err := c.wr.write(b)
	if f := c.OnWrite; f != nil && n > 0 {
		c.wr.mu.Lock()
		cum := c.wr.nWritten
		c.wr.mu.Unlock()
		f(cum)
	}
	if err == net.ErrClosed {
		err = &net.OpError{Op: "write", Net: "tcp", Source: c.local, Addr: c.remote, Err: net.ErrClosed}
	}
	return n, err
}

// Close closes both directions, like close(2) on a TCP socket: the peer reads EOF after the
// bytes already written; the peer's later writes fail.
func (c *Conn) Close() error {
	c.mu.Lock()
	if c.closed {
		c.mu.Unlock()
		return &net.OpError{Op: "close", Net: "tcp", Err: net.ErrClosed}
	}
	c.closed = true
	c.mu.Unlock()
	if c.net != nil && c.net.ResetOnCloseWithUnread {
		c.rd.mu.Lock()
		unread := len(c.rd.recv) + len(c.rd.inflight)
		c.rd.mu.Unlock()
		if unread > 0 {
			c.logOp("close_with_unread_input", unread)
			c.net.mu.Lock()
			c.net.RSTOnClose++
			c.net.mu.Unlock()
			c.rd.doReset()
			c.wr.doReset()
			c.rd.stopTimers()
			c.wr.stopTimers()
			return nil
		}
	}
	c.logOp("close", 0)
	c.wr.closeWrite()
	c.rd.closeRead()
	c.rd.stopTimers()
	c.wr.stopTimers()
	return nil
}

// CloseWrite half-closes, like (*net.TCPConn).CloseWrite.
func (c *Conn) CloseWrite() error {
	c.logOp("closewrite", 0)
	c.wr.closeWrite()
	return nil
}

// Closed reports whether Close was called on this end.
func (c *Conn) Closed() bool {
	c.mu.Lock()
	defer c.mu.Unlock()
	return c.closed
}

func (c *Conn) LocalAddr() net.Addr  { return c.local }
func (c *Conn) RemoteAddr() net.Addr { return c.remote }
func (c *Conn) SetDeadline(t time.Time) error {
	c.rd.setDeadline(t, true)
	c.wr.setDeadline(t, false)
	return nil
}
func (c *Conn) SetReadDeadline(t time.Time) error  { c.rd.setDeadline(t, true); return nil }
func (c *Conn) SetWriteDeadline(t time.Time) error { c.wr.setDeadline(t, false); return nil }

// Label returns the harness label of the connection end.
func (c *Conn) Label() string { return c.label }

// Peer returns the other end.
func (c *Conn) Peer() *Conn { return c.peer }

// ID returns the connection pair id.
func (c *Conn) ID() int { return c.id }

// TCPLike wraps a Conn with io.ReaderFrom / io.WriterTo the way *net.TCPConn offers them
// (generic copy loop underneath, as when splice/sendfile do not apply).
type TCPLike struct{ *Conn }

type onlyWriter struct{ io.Writer }
type onlyReader struct{ io.Reader }

// ReadFrom implements io.ReaderFrom.
func (c TCPLike) ReadFrom(r io.Reader) (int64, error) {
	return io.Copy(onlyWriter{c.Conn}, r)
}

// WriteTo implements io.WriterTo.
func (c TCPLike) WriteTo(w io.Writer) (int64, error) {
	return io.Copy(w, onlyReader{c.Conn})
}

// Unwrap returns the underlying *Conn of a net.Conn produced by this package.
func Unwrap(c net.Conn) *Conn {
	switch v := c.(type) {
	case *Conn:
		return v
	case TCPLike:
		return v.Conn
	case *TCPLike:
		return v.Conn
	}
	return nil
}

// ---------------------------------------------------------------------------------------

// Net is the simulated network of one run.
type Net struct {
	k  *kernel.K
	mu sync.Mutex

	conns     []*Conn // all ends, creation order (A end then B end)
	nextID    int
	listeners map[string]*Listener
	handlers  map[string]func(c *Conn) // raw handlers for outbound dials to addr
	pending   []*PendingDial
	newConns  []newConn

	// Defaults applied to new connections.
	DefaultCap    int
	DefaultPolicy ChunkPolicy
	DefaultAuto   bool
	TCPLikeConns  bool // hand TCPLike wrappers to the system
	// ResetOnCloseWithUnread: closing an end that has received bytes it never read (or that are
	// on their way to it) aborts the connection, as close(2) on a TCP socket with unread input
	// does: the peer gets a reset and whatever this end had written but not yet delivered is
	// lost. RSTOnClose counts how often that happened.
	ResetOnCloseWithUnread bool
	RSTOnClose             int
	rstReported            bool
	AutoDial      bool // complete dials immediately with success
	nextPort      int
	// TimeoutAddrs: dials to these addresses hang for DialTimeout and then fail with a timeout.
	TimeoutAddrs map[string]bool
	DialTimeout  time.Duration
	sleeping     int
	dials        int
	// LogSystemOps turns on operation logging for system-side ends of new connections.
	LogSystemOps bool
}

// Dials reports how many outbound dials were requested so far.
func (n *Net) Dials() int { n.mu.Lock(); defer n.mu.Unlock(); return n.dials }

// FindByRemote returns the system-side end whose remote address is addr (nil if none).
func (n *Net) FindByRemote(addr string) *Conn {
	n.mu.Lock()
	defer n.mu.Unlock()
	for _, c := range n.conns {
		if string(c.remote) == addr && strings.HasPrefix(c.label, "srv(") {
			return c
		}
	}
	return nil
}

// OpCount returns the number of logged operations.
func (c *Conn) OpCount() int { c.mu.Lock(); defer c.mu.Unlock(); return len(c.ops) }

// SleepingDials reports how many dials are waiting for their timeout.
func (n *Net) SleepingDials() int { n.mu.Lock(); defer n.mu.Unlock(); return n.sleeping }

// New creates the network and registers its action source with the kernel.
func New(k *kernel.K) *Net {
	n := &Net{k: k, listeners: map[string]*Listener{}, handlers: map[string]func(*Conn){}, AutoDial: true, nextPort: 40000}
	k.AddSource(n.actions)
	k.AddSettleHook(n.Pump)
	return n
}

// Pair creates a connected pair of ends.
func (n *Net) Pair(labelA, labelB string, addrA, addrB Addr) (*Conn, *Conn) {
	n.mu.Lock()
	defer n.mu.Unlock()
	n.nextID++
	id := n.nextID
	ab := newPipe(fmt.Sprintf("c%d:%s>%s", id, labelA, labelB))
	ba := newPipe(fmt.Sprintf("c%d:%s>%s", id, labelB, labelA))
	for _, p := range []*pipe{ab, ba} {
		p.capacity = n.DefaultCap
		p.policy = n.DefaultPolicy
		p.auto = n.DefaultAuto
	}
	a := &Conn{net: n, id: id, label: labelA, rd: ba, wr: ab, local: addrA, remote: addrB}
	b := &Conn{net: n, id: id, label: labelB, rd: ab, wr: ba, local: addrB, remote: addrA}
	a.peer, b.peer = b, a
	n.conns = append(n.conns, a, b)
	return a, b
}

func (n *Net) ephemeral(host string) Addr {
	n.nextPort++
	return Addr(fmt.Sprintf("%s:%d", host, n.nextPort))
}

// Wrap returns the net.Conn to hand to the system for c, honouring the personality.
func (n *Net) Wrap(c *Conn) net.Conn {
	if n.TCPLikeConns {
		return TCPLike{c}
	}
	return c
}

// Listener is a simulated listening socket.
type Listener struct {
	net    *Net
	addr   Addr
	mu     sync.Mutex
	cond   *sync.Cond
	queue  []net.Conn
	errs   []error
	closed bool
	// Accepted counts connections handed to Accept callers.
	Accepted int
}

// Listen creates a listener at addr ("host:port").
func (n *Net) Listen(addr string) *Listener {
	l := &Listener{net: n, addr: Addr(addr)}
	l.cond = sync.NewCond(&l.mu)
	n.mu.Lock()
	n.listeners[addr] = l
	n.mu.Unlock()
	return l
}

type tempError struct{}

func (tempError) Error() string   { return "accept: too many open files (simulated)" }
func (tempError) Timeout() bool   { return false }
func (tempError) Temporary() bool { return true }

// Accept implements net.Listener.
func (l *Listener) Accept() (net.Conn, error) {
	l.mu.Lock()
	defer l.mu.Unlock()
	for {
		if l.closed {
			return nil, &net.OpError{Op: "accept", Net: "tcp", Addr: l.addr, Err: net.ErrClosed}
		}
		if len(l.errs) > 0 {
			e := l.errs[0]
			l.errs = l.errs[1:]
			return nil, e
		}
		if len(l.queue) > 0 {
			c := l.queue[0]
			l.queue = l.queue[1:]
			l.Accepted++
			return c, nil
		}
		l.cond.Wait()
	}
}

// Close implements net.Listener. Queued, un-accepted connections are reset.
func (l *Listener) Close() error {
	l.mu.Lock()
	already := l.closed
	l.closed = true
	q := l.queue
	l.queue = nil
	l.cond.Broadcast()
	l.mu.Unlock()
	for _, c := range q {
		if sc := Unwrap(c); sc != nil {
			sc.Abort()
		}
	}
	if already {
		return &net.OpError{Op: "close", Net: "tcp", Addr: l.addr, Err: net.ErrClosed}
	}
	return nil
}

// IsClosed reports whether the listener was closed.
func (l *Listener) IsClosed() bool {
	l.mu.Lock()
	defer l.mu.Unlock()
	return l.closed
}

// Addr implements net.Listener.
func (l *Listener) Addr() net.Addr { return l.addr }

// InjectTemporaryError makes the next Accept return a temporary error.
func (l *Listener) InjectTemporaryError() {
	l.mu.Lock()
	l.errs = append(l.errs, tempError{})
	l.cond.Broadcast()
	l.mu.Unlock()
}

// Connect creates a connection to the listener from a harness endpoint and returns the
// harness end. The system end is queued for Accept. Returns nil if the listener is closed.
func (l *Listener) Connect(label string, from string) *Conn {
	l.mu.Lock()
	closed := l.closed
	l.mu.Unlock()
	if closed {
		return nil
	}
	h, s := l.net.Pair(label, "srv("+label+")", l.net.ephemeral(from), l.addr)
	s.LogOps = l.net.LogSystemOps
	l.mu.Lock()
	l.queue = append(l.queue, l.net.Wrap(s))
	l.cond.Broadcast()
	l.mu.Unlock()
	return h
}

// Handle registers a raw handler for outbound dials to addr: the handler receives the
// harness end of each new connection.
func (n *Net) Handle(addr string, h func(c *Conn)) {
	n.mu.Lock()
	n.handlers[addr] = h
	n.mu.Unlock()
}

type newConn struct {
	h func(*Conn)
	c *Conn
}

// Pump runs raw-endpoint callbacks on the controller goroutine; reports whether anything happened.
func (n *Net) Pump() bool {
	did := false
	for {
		n.mu.Lock()
		nc := n.newConns
		n.newConns = nil
		conns := append([]*Conn(nil), n.conns...)
		n.mu.Unlock()
		round := false
		for _, x := range nc {
			x.h(x.c)
			round = true
		}
		for _, c := range conns {
			if c.pump() {
				round = true
			}
		}
		if !round {
			return did
		}
		did = true
	}
}

// PendingDial is an outbound dial waiting for the controller's verdict.
type PendingDial struct {
	Addr    string
	From    string
	done    chan struct{}
	conn    net.Conn
	err     error
	settled bool
}

type dialError struct {
	msg     string
	timeout bool
}

func (e *dialError) Error() string   { return e.msg }
func (e *dialError) Timeout() bool   { return e.timeout }
func (e *dialError) Temporary() bool { return e.timeout }

// ErrRefused is returned for refused dials.
var ErrRefused = &net.OpError{Op: "dial", Net: "tcp", Err: syscall.ECONNREFUSED}

// DialFunc returns a dial function for the system; from labels the dialer.
func (n *Net) DialFunc(from string) func(network, addr string) (net.Conn, error) {
	return func(network, addr string) (net.Conn, error) {
		return n.dial(from, addr)
	}
}

func (n *Net) dial(from, addr string) (net.Conn, error) {
	n.mu.Lock()
	auto := n.AutoDial
	n.dials++
	hang := n.TimeoutAddrs[addr]
	d := n.DialTimeout
	if hang {
		n.sleeping++
	}
	n.mu.Unlock()
	if hang {
		if d == 0 {
			d = 30 * time.Second
		}
		time.Sleep(d)
		n.mu.Lock()
		n.sleeping--
		n.mu.Unlock()
		return nil, &net.OpError{Op: "dial", Net: "tcp", Addr: Addr(addr), Err: &dialError{"i/o timeout", true}}
	}
	if auto {
		return n.complete(from, addr)
	}
	pd := &PendingDial{Addr: addr, From: from, done: make(chan struct{})}
	n.mu.Lock()
	n.pending = append(n.pending, pd)
	n.mu.Unlock()
	<-pd.done
	return pd.conn, pd.err
}

func (n *Net) complete(from, addr string) (net.Conn, error) {
	n.mu.Lock()
	h := n.handlers[addr]
	l := n.listeners[addr]
	n.mu.Unlock()
	host, _, _ := net.SplitHostPort(addr)
	_ = host
	switch {
	case h != nil:
		s, o := n.Pair(from+">"+addr, addr, n.ephemeral("10.9.9.9"), Addr(addr))
		n.mu.Lock()
		n.newConns = append(n.newConns, newConn{h, o})
		n.mu.Unlock()
		return n.Wrap(s), nil
	case l != nil && !l.IsClosed():
		s, o := n.Pair(from+">"+addr, addr, n.ephemeral("10.9.9.9"), Addr(addr))
		l.mu.Lock()
		l.queue = append(l.queue, o)
		l.cond.Broadcast()
		l.mu.Unlock()
		return n.Wrap(s), nil
	}
	return nil, &net.OpError{Op: "dial", Net: "tcp", Addr: Addr(addr), Err: syscall.ECONNREFUSED}
}

// Pending returns unsettled dials.
func (n *Net) Pending() []*PendingDial {
	n.mu.Lock()
	defer n.mu.Unlock()
	var out []*PendingDial
	for _, p := range n.pending {
		if !p.settled {
			out = append(out, p)
		}
	}
	return out
}

// Settle completes a pending dial: outcome "ok", "refuse" or "timeout".
func (n *Net) Settle(pd *PendingDial, outcome string) {
	if pd.settled {
		return
	}
	pd.settled = true
	switch outcome {
	case "ok":
		pd.conn, pd.err = n.complete(pd.From, pd.Addr)
	case "refuse":
		pd.err = &net.OpError{Op: "dial", Net: "tcp", Addr: Addr(pd.Addr), Err: syscall.ECONNREFUSED}
	case "timeout":
		pd.err = &net.OpError{Op: "dial", Net: "tcp", Addr: Addr(pd.Addr), Err: &dialError{"i/o timeout", true}}
	}
	close(pd.done)
}

// ---------------------------------------------------------------------------------------
// Controller-side operations on connection ends.

// SetAuto switches both directions of the pair to automatic delivery.
func (c *Conn) SetAuto(auto bool) {
	for _, p := range []*pipe{c.rd, c.wr} {
		p.mu.Lock()
		p.auto = auto
		p.mu.Unlock()
	}
}

// SetCap sets the socket-buffer capacity of both directions (0 = unbounded).
func (c *Conn) SetCap(n int) {
	for _, p := range []*pipe{c.rd, c.wr} {
		p.mu.Lock()
		p.capacity = n
		p.cond.Broadcast()
		p.mu.Unlock()
	}
}

// SetPolicy sets the chunk policy for bytes travelling toward this end / away from it.
func (c *Conn) SetPolicy(in, out ChunkPolicy) {
	c.rd.mu.Lock()
	c.rd.policy = in
	c.rd.mu.Unlock()
	c.wr.mu.Lock()
	c.wr.policy = out
	c.wr.mu.Unlock()
}

// OnData makes this end a raw, controller-driven endpoint: delivered bytes are passed to f at once.
func (c *Conn) OnData(data func(b []byte), fin func(), rst func()) {
	c.rd.mu.Lock()
	c.rd.onData, c.rd.onFin, c.rd.onRst = data, fin, rst
	c.rd.mu.Unlock()
}

// pump hands delivered bytes / FIN / reset of a raw end to its callbacks (controller goroutine).
func (c *Conn) pump() bool {
	p := c.rd
	p.mu.Lock()
	if p.onData == nil && p.onFin == nil && p.onRst == nil {
		p.mu.Unlock()
		return false
	}
	data, fin, rst := p.onData, p.onFin, p.onRst
	b := p.recv
	if data != nil && len(b) > 0 {
		p.recv = nil
		p.nRead += int64(len(b))
		p.cond.Broadcast()
	} else {
		b = nil
	}
	doFin := p.finDelivered && !p.finNotified && !p.reset
	if doFin {
		p.finNotified = true
	}
	doRst := p.reset && !p.rstNotified
	if doRst {
		p.rstNotified = true
	}
	p.mu.Unlock()
	if len(b) > 0 {
		data(b)
	}
	if doFin && fin != nil {
		fin()
	}
	if doRst && rst != nil {
		rst()
	}
	return len(b) > 0 || doFin || doRst
}

// Inject writes b from this (raw) end without blocking, ignoring capacity.
func (c *Conn) Inject(b []byte) {
	p := c.wr
	p.mu.Lock()
	if p.reset || p.wclosed || p.rclosed {
		lateData := p.rclosed && !p.reset && len(b) > 0
		p.mu.Unlock()
		if lateData {
			c.lateDataResets()
		}
		return
	}
	p.nWritten += int64(len(b))
	if p.auto && !p.stalled {
		p.nDelivered += int64(len(b))
		p.deliverLocked(append([]byte(nil), b...))
	} else {
		p.inflight = append(p.inflight, b...)
	}
	p.mu.Unlock()
}

// lateDataResets: this end sends data to a peer that has closed its socket. With the personality
// ResetOnCloseWithUnread the peer's kernel answers with a reset and throws away what the peer had
// written but not yet got delivered - the other way of losing the tail of a stream to close(2).
func (c *Conn) lateDataResets() {
	if c.net == nil || !c.net.ResetOnCloseWithUnread {
		return
	}
	c.rd.mu.Lock()
	pending := len(c.rd.inflight)
	c.rd.mu.Unlock()
	if pending == 0 {
		return
	}
	c.net.mu.Lock()
	c.net.RSTOnClose++
	c.net.mu.Unlock()
	c.rd.doReset()
	c.wr.doReset()
}

// InFlightTotal returns the number of bytes written on any connection and not yet delivered.
func (n *Net) InFlightTotal() int {
	n.mu.Lock()
	conns := append([]*Conn(nil), n.conns...)
	n.mu.Unlock()
	t := 0
	for _, c := range conns {
		t += c.InFlight()
	}
	return t
}

// Room returns how many more bytes this end may write before a real writer would block.
func (c *Conn) Room() int { c.wr.mu.Lock(); defer c.wr.mu.Unlock(); return c.wr.room() }

// Abort resets the connection (both directions) from this end.
func (c *Conn) Abort() {
	c.mu.Lock()
	c.closed = true
	c.mu.Unlock()
	c.rd.doReset()
	c.wr.doReset()
}

// PeerClosedWrite reports whether the peer's FIN has been delivered to this end.
func (c *Conn) PeerClosedWrite() bool {
	c.rd.mu.Lock()
	defer c.rd.mu.Unlock()
	return c.rd.finDelivered
}

// WasReset reports whether the connection was aborted.
func (c *Conn) WasReset() bool { c.rd.mu.Lock(); defer c.rd.mu.Unlock(); return c.rd.reset }

// Stats returns (written by this end, delivered to peer, read by peer).
func (c *Conn) Stats() (w, d, r int64) {
	c.wr.mu.Lock()
	defer c.wr.mu.Unlock()
	return c.wr.nWritten, c.wr.nDelivered, c.wr.nRead
}

// InFlight returns the number of bytes written by this end not yet delivered.
func (c *Conn) InFlight() int { c.wr.mu.Lock(); defer c.wr.mu.Unlock(); return len(c.wr.inflight) }

// Unread returns the number of delivered bytes this end has not read yet.
func (c *Conn) Unread() int { c.rd.mu.Lock(); defer c.rd.mu.Unlock(); return len(c.rd.recv) }

// FailWritesAfter makes writes from this end fail once m more bytes were accepted.
func (c *Conn) FailWritesAfter(m int) {
	c.wr.mu.Lock()
	c.wr.writeErrAfter = m
	c.wr.cond.Broadcast()
	c.wr.mu.Unlock()
}

// Stall stops (or resumes) delivery of bytes written by this end.
func (c *Conn) Stall(on bool) {
	c.wr.mu.Lock()
	c.wr.stalled = on
	c.wr.mu.Unlock()
}

// deliver moves up to n in-flight bytes written by this end to the peer.
func (c *Conn) deliver(n int) int {
	p := c.wr
	p.mu.Lock()
	defer p.mu.Unlock()
	if n > len(p.inflight) {
		n = len(p.inflight)
	}
	if n == 0 {
		return 0
	}
	b := append([]byte(nil), p.inflight[:n]...)
	p.inflight = p.inflight[n:]
	if len(p.inflight) == 0 {
		p.inflight = nil
	}
	p.nDelivered += int64(n)
	p.deliverLocked(b)
	return n
}

// DeliverAll delivers everything in flight from this end (and the FIN if queued).
func (c *Conn) DeliverAll() {
	c.deliver(1 << 30)
	c.deliverFin()
}

func (c *Conn) deliverFin() bool {
	p := c.wr
	p.mu.Lock()
	defer p.mu.Unlock()
	if p.wclosed && len(p.inflight) == 0 && !p.finDelivered && !p.reset {
		p.finLocked()
		return true
	}
	return false
}

func (c *Conn) finPending() bool {
	p := c.wr
	p.mu.Lock()
	defer p.mu.Unlock()
	return p.wclosed && len(p.inflight) == 0 && !p.finDelivered && !p.reset && !p.stalled && !p.rclosed
}

// chunk draws a delivery size for the pipe according to its policy.
func (n *Net) chunk(p *pipe, avail int) int {
	pol := p.policy
	if pol == ChunkMixed {
		pol = ChunkPolicy(n.k.S.Pick([]int{4, 3, 2, 2, 1}))
	}
	var sz int
	switch pol {
	case ChunkAll:
		sz = avail
	case ChunkBig:
		sz = 4096
	case ChunkMed:
		sz = n.k.S.Range(17, 200)
	case ChunkSmall:
		sz = n.k.S.Range(1, 16)
	case ChunkByte:
		sz = 1
	case ChunkHuge:
		sz = 65536
	}
	if sz > avail {
		sz = avail
	}
	if sz < 1 {
		sz = 1
	}
	return sz
}

// actions is the kernel action source: deliveries, FINs and pending dials.
func (n *Net) actions(add func(kernel.Action)) {
	n.mu.Lock()
	conns := append([]*Conn(nil), n.conns...)
	pend := append([]*PendingDial(nil), n.pending...)
	n.mu.Unlock()
	for _, c := range conns {
		c := c
		p := c.wr
		p.mu.Lock()
		avail := len(p.inflight)
		stalled := p.stalled
		dead := p.reset || p.rclosed
		p.mu.Unlock()
		if dead || stalled {
			continue
		}
		if avail > 0 {
			add(kernel.Action{Key: "deliver " + p.name, W: 4, Class: kernel.Deliver, Do: func() {
				sz := n.chunk(p, avail)
				got := c.deliver(sz)
				n.k.Logf("  delivered %d of %d on %s", got, avail, p.name)
			}})
		} else if c.finPending() {
			add(kernel.Action{Key: "fin " + p.name, W: 4, Class: kernel.Deliver, Do: func() {
				c.deliverFin()
			}})
		}
	}
	for i, pd := range pend {
		if pd.settled {
			continue
		}
		pd := pd
		add(kernel.Action{Key: fmt.Sprintf("dialok#%d %s", i, pd.Addr), W: 4, Class: kernel.Deliver, Do: func() { n.Settle(pd, "ok") }})
	}
}

// Fingerprint summarises the abstract state of all connections.
func (n *Net) Fingerprint() string {
	n.mu.Lock()
	conns := append([]*Conn(nil), n.conns...)
	n.mu.Unlock()
	out := make([]byte, 0, len(conns)*2)
	for _, c := range conns {
		p := c.wr
		p.mu.Lock()
		var b byte = '0'
		if len(p.inflight) > 0 {
			b |= 1
		}
		if len(p.recv) > 0 {
			b |= 2
		}
		if p.wclosed {
			b |= 4
		}
		if p.finDelivered {
			b |= 8
		}
		if p.capacity > 0 && p.room() == 0 {
			b += 16
		}
		if p.reset {
			b = 'R'
		}
		p.mu.Unlock()
		out = append(out, b)
	}
	return string(out)
}

// Conns returns all connection ends in creation order.
func (n *Net) Conns() []*Conn {
	n.mu.Lock()
	defer n.mu.Unlock()
	return append([]*Conn(nil), n.conns...)
}

// OpenSystemEnds lists labels of ends not yet closed whose label satisfies match.
func (n *Net) OpenEnds(match func(label string) bool) []string {
	var out []string
	for _, c := range n.Conns() {
		if match(c.label) && !c.Closed() && !c.WasReset() {
			out = append(out, c.label)
		}
	}
	sort.Strings(out)
	return out
}

// Shutdown aborts every connection and closes every listener (end-of-run cleanup).
func (n *Net) Shutdown() {
	n.mu.Lock()
	if n.RSTOnClose > 0 && !n.rstReported {
		// (reported here, on the controller's goroutine, not where it happened)
		n.rstReported = true
		for i := 0; i < n.RSTOnClose; i++ {
			n.k.FaultFired("close_with_unread_input_resets_connection")
		}
	}
	ls := make([]*Listener, 0, len(n.listeners))
	keys := make([]string, 0, len(n.listeners))
	for k := range n.listeners {
		keys = append(keys, k)
	}
	sort.Strings(keys)
	for _, k := range keys {
		ls = append(ls, n.listeners[k])
	}
	conns := append([]*Conn(nil), n.conns...)
	pend := append([]*PendingDial(nil), n.pending...)
	n.mu.Unlock()
	for _, pd := range pend {
		if !pd.settled {
			n.Settle(pd, "refuse")
		}
	}
	for _, l := range ls {
		l.Close()
	}
	for _, c := range conns {
		c.rd.mu.Lock()
		c.rd.onData, c.rd.onFin, c.rd.onRst = nil, nil, nil
		c.rd.mu.Unlock()
	}
	for _, c := range conns {
		c.rd.doReset()
		c.rd.stopTimers()
	}
}

var _ = errors.New
