#!/bin/sh
# Build the framework from files on disk only (offline): warms the Go 1.26.8 build cache by
# building the worker binary once against the current /repo tree, then removes the binary.
set -e
cd "$(dirname "$0")"
export GOFLAGS=-mod=mod GOPROXY=off GOSUMDB=off GOTOOLCHAIN=local
cp /repo/go.sum sim/go.sum 2>/dev/null || true
./check build
