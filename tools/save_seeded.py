#!/usr/bin/env python3
"""tools/save_seeded.py <OUTDIR> <m1|m2> <seeded-id> <PROP> <needs> <caught_by> <ran>"""
import json, os, shutil, sys
out, m, sid, prop, needs, caught, ran = sys.argv[1:8]
d = os.path.join(os.path.dirname(os.path.dirname(os.path.abspath(__file__))), "seeded", sid)
os.makedirs(d, exist_ok=True)
shutil.copyfile(os.path.join(out, m + ".patch.diff"), os.path.join(d, "patch.diff"))
shutil.copyfile(os.path.join(out, m + "_demo_test.go"), os.path.join(d, "demo_test.go"))
notes = ""
try:
    notes = open(os.path.join(out, "NOTES.md")).read()
except OSError:
    pass
open(os.path.join(d, "NOTES.md"), "w").write(notes)
conf = ""
try:
    conf = open("/tmp/mut/confirm/%s.log" % os.path.basename(os.path.dirname(out.rstrip("/"))) ).read()[-300:]
except OSError:
    pass
json.dump({"id": sid, "property": prop, "breaks": prop, "needs_to_manifest": needs, "detected_by": caught,
           "confirmed": "tools/confirm_mutant.sh in a scratch worktree of /repo HEAD: patch applies and builds; existing suite (go test -vet=off -count=1 ./...) passes with it; demo fails with it and passes without",
           "ran": ran, "source": "independent sub-agent given only the property text"}, open(os.path.join(d, "meta.json"), "w"), indent=1)
print("saved", d)
