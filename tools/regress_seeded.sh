#!/bin/sh
# tools/regress_seeded.sh [seconds] - apply every kept seeded change (its re-based form when one
# exists) to /repo, run the quick check of its property, undo it; prints CAUGHT / MISSED / DOES NOT
# APPLY per change. /repo must be clean and nothing else may use it meanwhile.
SEC="${1:-25}"
export GOFLAGS=-mod=mod GOPROXY=off GOSUMDB=off GOTOOLCHAIN=local
cd /verif || exit 2
for d in seeded/*/; do
  m=$(basename "$d"); prop=${m%%-*}
  # (a change may be reported by the check of another property than the one its author was given)
  cw=$(sed -n 's/.*"check_with": *"\(C[0-9][0-9]\)".*/\1/p' "$d/meta.json" | head -1); [ -n "$cw" ] && prop=$cw
  f=$d/patch.diff; [ -f "$d/patch.adapted.diff" ] && f=$d/patch.adapted.diff
  if grep -q '"obsolete"' "$d/meta.json"; then echo "$m: OBSOLETE (see meta.json)"; continue; fi
  if [ -n "$(git -C /repo status --porcelain --untracked-files=no)" ]; then echo "repo dirty"; exit 2; fi
  if ! git -C /repo apply "/verif/$f" 2>/dev/null; then echo "$m: DOES NOT APPLY"; continue; fi
  if ! (cd /repo && go build ./... >/dev/null 2>&1); then echo "$m: DOES NOT BUILD"; git -C /repo checkout -- .; continue; fi
  out=$(VERIF_NOMIN=1 ./check "$prop" --seconds "$SEC" 2>&1)
  git -C /repo checkout -- .
  hit=$(echo "$out" | grep -m1 '^DEV' | cut -c1-100)
  if [ -n "$hit" ]; then echo "$m: CAUGHT $hit"; else echo "$m: MISSED $(echo "$out" | grep 'tier=' | tail -1 | cut -c1-120)"; fi
done
