#!/bin/sh
# tools/try_mutant.sh <patch.diff> <PROP> [seconds]  — apply to /repo, run the check, undo.
P="$1"; PROP="$2"; SEC="${3:-30}"
cd /repo || exit 2
if [ -n "$(git status --porcelain --untracked-files=no)" ]; then echo "repo dirty"; exit 2; fi
git apply "$P" || { echo "PATCH DOES NOT APPLY"; exit 3; }
(go build ./... ) || { echo "mutant does not build"; git checkout -- .; exit 3; }
cd /verif && ./check "$PROP" --seconds "$SEC" 2>&1 | grep -v "^KNOWN" | cut -c1-700 | tail -8
rc=$?
git -C /repo checkout -- .
