#!/usr/bin/env python3
"""Layer-2 seams: read the CURRENT /repo files, apply a fixed list of named call-site rewrites and
emit a `go build -overlay` JSON into a scratch directory. Nothing in /repo is modified.

Every rewrite must match exactly the stated number of sites, otherwise this exits 2 (never a
verdict). The identity of each seam when its hook is nil is documented in DESIGN.md section 4.
"""
import json, os, re, subprocess, sys

REPO = os.environ.get("VERIF_REPO", "/repo")


R0_TAIL = '''
// verifTimerSalt and verifTimerSeq replace the per-thread random tie-break of same-instant
// synctest timers by a value the simulation harness owns (/verif/sim/kernel/timerseam.go).
//
//go:linkname verifTimerSalt
var verifTimerSalt uint32

//go:linkname verifTimerSeq
var verifTimerSeq uint32

func verifTimerRand() uint32 {
	verifTimerSeq++
	x := verifTimerSeq
	if verifTimerSalt == 0 {
		return x
	}
	x ^= verifTimerSalt
	x *= 0x9e3779b1
	x ^= x >> 15
	x *= 0x85ebca77
	x ^= x >> 13
	return x
}
'''


def r0(src):  # GOROOT/src/runtime/time.go: tie-break of same-instant fake timers owned by the kernel
    old = "\t\t\tt.rand = cheaprand()\n"
    return src.replace(old, "\t\t\tt.rand = verifTimerRand()\n") + R0_TAIL, src.count(old), 1


def r0b(src):  # GOROOT/src/runtime/proc.go: sysmon's forced pre-emption after 10 ms becomes 2 s
    # On an oversubscribed machine the OS can keep the single P's thread off the CPU for more than
    # 10 ms; sysmon then pre-empts the goroutine that "ran too long" and the run queue order
    # changes: the one scheduling decision not taken by the tape. 2 s is far beyond any cascade of
    # the system under test and still frees the P for the watchdog if something spins.
    old = "const forcePreemptNS = 10 * 1000 * 1000 // 10ms"
    return src.replace(old, "const forcePreemptNS = 2 * 1000 * 1000 * 1000 // 2s (verif overlay R0b)"), src.count(old), 1


def r0c(src):  # GOROOT/src/runtime/sema.go: sync.Mutex measures a waiter's starvation on the bubble clock
    # sync.Mutex switches to starvation mode (direct hand-off, the unlocker yields) when a waiter
    # has waited for more than 1 ms of REAL time; inside a bubble a goroutine blocked on a mutex
    # whose holder is durably blocked waits for as long as the controller's steps take on this
    # machine today. With the bubble clock the decision is a function of simulated time only.
    old = "func internal_sync_nanotime() int64 {\n\treturn nanotime()\n}"
    new = "func internal_sync_nanotime() int64 {\n\tif gp := getg(); gp.bubble != nil {\n\t\treturn gp.bubble.now\n\t}\n\treturn nanotime()\n}"
    return src.replace(old, new), src.count(old), 1


def r0e(src):  # GOROOT/src/runtime/runtime2.go: a goroutine waiting for a sync.Mutex/RWMutex is idle for the bubble clock
    # synctest does not count a goroutine blocked on a mutex as durably blocked (the holder could be
    # outside the bubble), so the bubble clock stops while anybody waits for a mutex whose holder
    # sleeps, and a mutex deadlock inside the bubble freezes simulated time for good. Everything the
    # harness runs is inside the bubble: with these three wait reasons idle, a holder that sleeps
    # with the lock held wakes up on time and a deadlock is seen as exchanges that never finish
    # while the clock runs.
    old = "\twaitReasonSyncCondWait:          true,\n"
    new = old + "\twaitReasonSyncMutexLock:         true,\n\twaitReasonSyncRWMutexRLock:      true,\n\twaitReasonSyncRWMutexLock:       true,\n"
    return src.replace(old, new), src.count(old), 1


R0D_TAIL = '''
// verifSelSeq: see verifTimerRand (runtime/time.go overlay). Inside a synctest bubble the order in
// which select polls its cases is a function of (sequence number, salt) owned by the harness;
// salt 0 means source order.
//
//go:linkname verifSelSeq
var verifSelSeq uint32

func verifSelectRandn(n uint32) uint32 {
	if getg().bubble == nil {
		return cheaprandn(n)
	}
	if verifTimerSalt == 0 {
		return n - 1
	}
	verifSelSeq++
	x := verifSelSeq ^ verifTimerSalt ^ 0x5bd1e995
	x *= 0x9e3779b1
	x ^= x >> 15
	x *= 0x85ebca77
	x ^= x >> 13
	return uint32((uint64(x) * uint64(n)) >> 32)
}
'''


def r0d(src):  # GOROOT/src/runtime/select.go: poll order of select cases owned by the kernel inside a bubble
    old = "\t\tj := cheaprandn(uint32(norder + 1))\n"
    return src.replace(old, "\t\tj := verifSelectRandn(uint32(norder + 1))\n") + R0D_TAIL, src.count(old), 1


def r1(src):  # h2/h2.go: the upstream dial goes through the dial hook (which falls back to a real dial)
    # two forms of the tree: `sc, err := dialTLS(ctx, ...)` (context-aware, since fix of C10) and
    # the older `tls.Dial(...)`
    if ":= dialTLS(" in src:
        return src.replace(":= dialTLS(", ":= verifDialContext("), src.count(":= dialTLS("), 1
    n = src.count("tls.Dial(")
    return src.replace("tls.Dial(", "verifDial("), n, 1


def r2(src):  # h2/relay.go: map iteration order of outputBuffers becomes a tape-chosen permutation
    pat = re.compile(r"range\s+r\.outputBuffers\b")
    out, n = pat.subn("range verifOrder(r.outputBuffers)", src)
    return out, n, -1  # every iteration there is (two on the pinned tree), at least one


def r3(src):  # trafficshape/bucket.go: the busy-wait of FillThrottle{,Locked} sleeps 1ms of simulated time per spin
    # append verifSpinWait() to the end of the body of the condition-less `for {` loop of every
    # function whose name starts with FillThrottle: only the "bucket full, try again" path reaches it
    out, n, pos = [], 0, 0
    for m in re.finditer(r"func \(b \*Bucket\) (FillThrottle\w*)\(", src):
        start = m.start()
        nxt = src.find("\nfunc ", start + 1)
        if nxt < 0:
            nxt = len(src)
        body = src[start:nxt]
        # the loop is the last block of the function: "\t}\n}\n" closes loop and function
        idx = body.rfind("\n\t}\n}")
        if idx >= 0 and "for {" in body:
            body = body[:idx] + "\n\t\tverifSpinWait()" + body[idx:]
            n += 1
        out.append(src[pos:start])
        out.append(body)
        pos = nxt
    out.append(src[pos:])
    return "".join(out), n, 2


def r4(src):  # proxy.go: yield point at the head of handleLoop
    pat = re.compile(r"(func \(p \*Proxy\) handleLoop\(conn net\.Conn\) \{\n)")
    out, n = pat.subn(r'\1\tverifYield("handleLoop")\n', src)
    return out, n, 1


def r5(src):  # mitm/mitm.go: yield points inside cert(): after the cache miss and before signing
    n = 0
    out, k = re.subn(r'(\tlog\.Debugf\("mitm: cache miss for %s", hostname\)\n)', r'\1\tverifYield("cert:miss")\n', src)
    n += k
    out, k = re.subn(r'(\n)(\traw, err := x509\.CreateCertificate\(rand\.Reader, tmpl, c\.ca,)', r'\1\tverifYield("cert:sign")\n\2', out)
    n += k
    return out, n, 2


def r6(src):  # trafficshape/listener.go: per-connection buckets are created in sorted regex order
    old = "\tfor regex, shape := range l.Shapes.M {\n"
    new = "\tfor _, regex := range verifKeys(l.Shapes.M) {\n\t\tshape := l.Shapes.M[regex]\n"
    return src.replace(old, new), src.count(old), -2


def r7(src):  # trafficshape/conn.go: per-connection buckets are stopped in sorted regex order
    old = "\tfor _, bs := range c.LocalBuckets {\n"
    new = "\tfor _, verifK := range verifKeys(c.LocalBuckets) {\n\t\tbs := c.LocalBuckets[verifK]\n"
    # (0 sites is accepted: a tree whose Close does not iterate over the buckets has no iteration
    # order to pin - whether it still releases them is for the check to say, not for the build)
    return src.replace(old, new), src.count(old), -2


LOCK_RE = re.compile(r"^([ \t]*)([A-Za-z_][\w\.\[\]\(\)\*]*\.R?Lock\(\))[ \t]*$", re.M)


def lock_yield(label, split=False):
    # R8: a yield point before every statement that acquires a mutex in the file; the harness parks
    # a goroutine there so that another one can run between two critical sections (or between the
    # check and the act of one that was split). Any number of sites >= 1: the rewrite is generic.
    def fn(src):
        # (split: read-lock acquisitions get the site name "rlock:<label>", so that a world can tell
        # them from write-lock acquisitions)
        def site(m):
            return ("rlock:" if split and m.group(2).endswith(".RLock()") else "lock:") + label
        out, n = LOCK_RE.subn(lambda m: '%sverifYield("%s")\n%s%s' % (m.group(1), site(m), m.group(1), m.group(2)), src)
        return out, n, -1
    return fn


REWRITES = [
    ("R1", "h2/h2.go", r1),
    ("R2", "h2/relay.go", r2),
    ("R3", "trafficshape/bucket.go", r3),
    ("R4", "proxy.go", r4),
    ("R5", "mitm/mitm.go", r5),
    ("R6", "trafficshape/listener.go", r6),
    ("R7", "trafficshape/conn.go", r7),
    ("R8", "multierror.go", lock_yield("multierror")),
    ("R8", "proxy.go", lock_yield("proxy")),
    ("R8", "h2/relay.go", lock_yield("h2")),
    ("R8", "har/har.go", lock_yield("har")),
    ("R8", "martianhttp/martianhttp.go", lock_yield("martianhttp")),
    ("R8", "fifo/fifo_group.go", lock_yield("fifo")),
    ("R8", "trafficshape/conn.go", lock_yield("trafficshape")),
    ("R8", "trafficshape/handler.go", lock_yield("trafficshape")),
    ("R8", "trafficshape/listener.go", lock_yield("trafficshape")),
    ("R8", "marbl/handler.go", lock_yield("marbl", split=True)),
    ("R8", "parse/parse.go", lock_yield("parse")),
]


def main():
    outdir = sys.argv[1]
    only = set(sys.argv[2:])  # optional subset of rewrite ids
    os.makedirs(outdir, exist_ok=True)
    replace = {}
    for rid, rel, fn in REWRITES:
        if only and rid not in only:
            continue
        path = os.path.join(REPO, rel)
        hook = os.path.join(REPO, os.path.dirname(rel), "verif_hooks.go")
        if not os.path.exists(hook):
            # layer-1 hook file for this package not present yet: seam not available
            continue
        src = open(path).read()
        if path in replace:
            src = open(replace[path]).read()  # a second rewrite of the same file stacks on the first
        new, n, want = fn(src)
        if (want == -2 and n > 1) or (want == -1 and n < 1) or (want >= 0 and n != want):
            sys.stderr.write("instrument: %s matched %d sites in %s, expected %d\n" % (rid, n, rel, want))
            sys.exit(2)
        dst = os.path.join(outdir, rel.replace("/", "__"))
        open(dst, "w").write(new)
        replace[path] = dst
    if not only or "R0" in only:
        goroot = subprocess.run([os.environ.get("VERIF_GO", "go1.26.8"), "env", "GOROOT"], capture_output=True, text=True,
                                env=dict(os.environ, GOTOOLCHAIN="local")).stdout.strip()
        path = os.path.join(goroot, "src", "runtime", "time.go")
        if not os.path.exists(path):
            sys.stderr.write("instrument: R0 cannot find %s\n" % path)
            sys.exit(2)
        new, n, want = r0(open(path).read())
        if n != want:
            sys.stderr.write("instrument: R0 matched %d sites in %s, expected %d\n" % (n, path, want))
            sys.exit(2)
        dst = os.path.join(outdir, "goroot__runtime__time.go")
        open(dst, "w").write(new)
        replace[path] = dst
        path = os.path.join(goroot, "src", "runtime", "proc.go")
        new, n, want = r0b(open(path).read())
        if n != want:
            sys.stderr.write("instrument: R0b matched %d sites in %s, expected %d\n" % (n, path, want))
            sys.exit(2)
        dst = os.path.join(outdir, "goroot__runtime__proc.go")
        open(dst, "w").write(new)
        replace[path] = dst
        for rid, fname, fn in (("R0c", "sema.go", r0c), ("R0d", "select.go", r0d), ("R0e", "runtime2.go", r0e)):
            path = os.path.join(goroot, "src", "runtime", fname)
            new, n, want = fn(open(path).read())
            if n != want:
                sys.stderr.write("instrument: %s matched %d sites in %s, expected %d\n" % (rid, n, path, want))
                sys.exit(2)
            dst = os.path.join(outdir, "goroot__runtime__" + fname)
            open(dst, "w").write(new)
            replace[path] = dst
    ov = os.path.join(outdir, "overlay.json")
    json.dump({"Replace": replace}, open(ov, "w"))
    print(ov)


if __name__ == "__main__":
    main()
