#!/usr/bin/env python3
"""Layer-2 seams: read the CURRENT /repo files, apply a fixed list of named call-site rewrites and
emit a `go build -overlay` JSON into a scratch directory. Nothing in /repo is modified.

Every rewrite must match exactly the stated number of sites, otherwise this exits 2 (never a
verdict). The identity of each seam when its hook is nil is documented in DESIGN.md section 4.
"""
import json, os, re, sys

REPO = os.environ.get("VERIF_REPO", "/repo")


def r1(src):  # h2/h2.go: tls.Dial -> verifDial (falls back to tls.Dial when VerifDial is nil)
    n = src.count("tls.Dial(")
    return src.replace("tls.Dial(", "verifDial("), n, 1


def r2(src):  # h2/relay.go: map iteration order of outputBuffers becomes a tape-chosen permutation
    pat = re.compile(r"range\s+r\.outputBuffers\b")
    out, n = pat.subn("range verifOrder(r.outputBuffers)", src)
    return out, n, 2


def r3(src):  # trafficshape/bucket.go: busy-wait loops in FillThrottle{,Locked} sleep 1ms of simulated time
    # insert verifSpinWait() as the first statement of every condition-less `for {` that lives in
    # a function whose name starts with FillThrottle
    out, n, pos = [], 0, 0
    for m in re.finditer(r"func \(b \*Bucket\) (FillThrottle\w*)\(", src):
        start = m.start()
        nxt = src.find("\nfunc ", start + 1)
        if nxt < 0:
            nxt = len(src)
        body = src[start:nxt]
        body2, k = re.subn(r"\bfor \{\n", "for {\n\t\tverifSpinWait()\n", body)
        n += k
        out.append(src[pos:start])
        out.append(body2)
        pos = nxt
    out.append(src[pos:])
    return "".join(out), n, 2


def r4(src):  # proxy.go: yield point at the head of handleLoop
    pat = re.compile(r"(func \(p \*Proxy\) handleLoop\(conn net\.Conn\) \{\n)")
    out, n = pat.subn(r'\1\tverifYield("handleLoop")\n', src)
    return out, n, 1


def r5(src):  # mitm/mitm.go: yield points inside cert(): after the cache miss and before signing
    n = 0
    out, k = re.subn(r'(\tlog\.Debugf\("mitm: cache miss for %s", hostname\)\n)', r'\1\tverifYield("cert:miss")\n', src)
    n += k
    out, k = re.subn(r'(\n)(\traw, err := x509\.CreateCertificate\(rand\.Reader, tmpl, c\.ca,)', r'\1\tverifYield("cert:sign")\n\2', out)
    n += k
    return out, n, 2


REWRITES = [
    ("R1", "h2/h2.go", r1),
    ("R2", "h2/relay.go", r2),
    ("R3", "trafficshape/bucket.go", r3),
    ("R4", "proxy.go", r4),
    ("R5", "mitm/mitm.go", r5),
]


def main():
    outdir = sys.argv[1]
    only = set(sys.argv[2:])  # optional subset of rewrite ids
    os.makedirs(outdir, exist_ok=True)
    replace = {}
    for rid, rel, fn in REWRITES:
        if only and rid not in only:
            continue
        path = os.path.join(REPO, rel)
        hook = os.path.join(REPO, os.path.dirname(rel), "verif_hooks.go")
        if not os.path.exists(hook):
            # layer-1 hook file for this package not present yet: seam not available
            continue
        src = open(path).read()
        new, n, want = fn(src)
        if n != want:
            sys.stderr.write("instrument: %s matched %d sites in %s, expected %d\n" % (rid, n, rel, want))
            sys.exit(2)
        dst = os.path.join(outdir, rel.replace("/", "__"))
        open(dst, "w").write(new)
        replace[path] = dst
    ov = os.path.join(outdir, "overlay.json")
    json.dump({"Replace": replace}, open(ov, "w"))
    print(ov)


if __name__ == "__main__":
    main()
