#!/bin/sh
# tools/regress_fixes.sh [seconds] - sensitivity of the checks to the defects that were repaired:
# for every `fixed` entry of known_findings.json, revert its commit in the working tree of /repo
# (git show -R | git apply), run the quick check of the property, undo. Prints REPORTED / MISSED /
# DOES NOT REVERT CLEANLY per entry. /repo must be clean and nothing else may use it meanwhile.
SEC="${1:-25}"
export GOFLAGS=-mod=mod GOPROXY=off GOSUMDB=off GOTOOLCHAIN=local
cd /verif || exit 2
python3 - <<'P' > /tmp/fixed_entries.txt
import json
seen=set()
for f in json.load(open('/verif/known_findings.json'))['findings']:
    if f['status']=='fixed' and (f['commit'],f['property']) not in seen:
        seen.add((f['commit'],f['property']))
        print(f['property'], f['commit'], f['id'])
P
while read prop c id; do
  if [ -n "$(git -C /repo status --porcelain --untracked-files=no)" ]; then echo "repo dirty"; exit 2; fi
  if ! git -C /repo show -R "$c" -- . ':!*_test.go' | git -C /repo apply 2>/dev/null; then echo "$id ($c): DOES NOT REVERT CLEANLY"; continue; fi
  if ! (cd /repo && go build ./... >/dev/null 2>&1); then echo "$id ($c): REVERT DOES NOT BUILD"; git -C /repo checkout -- .; continue; fi
  out=$(VERIF_NOMIN=1 ./check "$prop" --seconds "$SEC" 2>&1)
  git -C /repo checkout -- .
  hit=$(echo "$out" | grep -m1 '^DEV' | cut -c1-110)
  if [ -n "$hit" ]; then echo "$id ($c): REPORTED $hit"; else echo "$id ($c): MISSED $(echo "$out" | grep 'tier=' | tail -1 | cut -c1-100)"; fi
done < /tmp/fixed_entries.txt
