#!/bin/sh
# tools/confirm_mutant.sh <OUTDIR> <m1|m2> <name>
# Confirms in a fresh scratch worktree of /repo HEAD: patch applies and builds, existing suite passes with it,
# demo fails with it and passes without. Writes /tmp/mut/confirm/<name>.log ; last line CONFIRMED or REJECTED: why
OUT="$1"; M="$2"; NAME="$3"
export GOFLAGS=-mod=mod GOPROXY=off GOSUMDB=off
mkdir -p /tmp/mut/confirm; LOG=/tmp/mut/confirm/$NAME.log; : > $LOG
WT=/tmp/mut/confirm/wt-$NAME
git -C /repo worktree add -q --detach $WT HEAD >>$LOG 2>&1 || { echo "REJECTED: worktree" >>$LOG; exit 1; }
fin() { git -C /repo worktree remove --force $WT >/dev/null 2>&1; echo "$1" >>$LOG; echo "$NAME: $1"; exit 0; }
cd $WT
git apply $OUT/$M.patch.diff >>$LOG 2>&1 || fin "REJECTED: patch does not apply to current HEAD"
go build ./... >>$LOG 2>&1 || fin "REJECTED: does not build"
go test -vet=off -count=1 ./... >>$LOG 2>&1 || fin "REJECTED: existing suite fails with the patch"
DEST=$(head -1 $OUT/${M}_demo_test.go | sed -n 's#^// place at: *##p' | tr -d '\r ')
[ -n "$DEST" ] || fin "REJECTED: demo has no place-at line"
cp $OUT/${M}_demo_test.go $WT/$DEST
PKG=./$(dirname $DEST)
RX="^($(grep -o '^func Test[A-Za-z0-9_]*' $OUT/${M}_demo_test.go | sed 's/^func //' | paste -sd'|'))\$"
go test -vet=off -count=1 -run "$RX" $PKG >>$LOG 2>&1 && fin "REJECTED: demo passes WITH the patch"
git apply -R $OUT/$M.patch.diff >>$LOG 2>&1
go test -vet=off -count=1 -run "$RX" $PKG >>$LOG 2>&1 || fin "REJECTED: demo fails WITHOUT the patch"
fin "CONFIRMED"
