#!/usr/bin/env python3
"""Determinism self-test: every run index of a world is executed several times in different
processes (different chunking, different process-level concurrency) and the event-log hashes
are compared.   tools/determinism.py <WORLD> [runs=200] [reps=3]"""
import json, os, subprocess, sys, shutil
from concurrent.futures import ThreadPoolExecutor
V = os.path.dirname(os.path.dirname(os.path.abspath(__file__)))
sys.path.insert(0, V)
import importlib.machinery, importlib.util
loader = importlib.machinery.SourceFileLoader("check", os.path.join(V, "check"))
spec = importlib.util.spec_from_loader("check", loader)
chk = importlib.util.module_from_spec(spec); loader.exec_module(chk)

world = sys.argv[1]
runs = int(sys.argv[2]) if len(sys.argv) > 2 else 200
reps = int(sys.argv[3]) if len(sys.argv) > 3 else 3
bdir, binp = chk.build()
try:
    def go(args):
        frm, cnt = args
        env = dict(chk.ENV, VERIF_WORLD=world, VERIF_SEED="777", VERIF_RUN_FROM=str(frm), VERIF_RUN_COUNT=str(cnt))
        p = subprocess.run([binp, "-test.run", "^TestWorker$", "-test.cpu", "1", "-test.timeout", "0"], capture_output=True, text=True, env=env)
        out = {}
        for l in p.stdout.split("\n"):
            if l.startswith("{"):
                d = json.loads(l)
                if d.get("type") == "result":
                    out[d["run"]] = (d["log_hash"], d["verdict"], d["steps"])
        return out
    tables = []
    for rep in range(reps):
        chunk = [runs, 7, 1, 13][rep % 4]
        jobs = [(f, min(chunk, runs - f)) for f in range(0, runs, chunk)]
        workers = [1, 16, 16, 4][rep % 4]
        with ThreadPoolExecutor(workers) as ex:
            t = {}
            for o in ex.map(go, jobs):
                t.update(o)
        tables.append(t)
    bad = 0
    missing = 0
    for r in range(runs):
        # A worker process ends after a violating run that left goroutines behind (known findings
        # do that): the rest of its chunk is then absent from that repetition - not a divergence.
        got = [t.get(r) for t in tables]
        missing += sum(1 for g in got if g is None)
        vals = set(g for g in got if g is not None)
        if len(vals) > 1:
            bad += 1
            if bad <= 10:
                print("DIVERGE run", r, vals)
    print("determinism %s: %d runs x %d reps, %d divergent%s" % (world, runs, reps, bad, (" (%d results absent: worker ended after a violating run)" % missing) if missing else ""))
    sys.exit(1 if bad else 0)
finally:
    shutil.rmtree(bdir, ignore_errors=True)
